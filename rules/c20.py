"""C20 - programs end when work is done; steady-state resources stay bounded: structural clauses.

C20-PIN       every janet_gcroot outside VM-lifetime roots has a janet_gcunroot of the same provenance on every
              path of the function that completes the wait
C20-FD        a descriptor obtained from the OS is closed, owned or returned on every path of the acquiring function
C20-PENDING   listener_count changes only through the refcount helpers, each tied to a token
C20-LOOPDONE  janet_loop_done reads exactly the three sources of pending work and janet_loop re-tests it
"""
from jv import flow
from jv.facts import Program, AnalysisBroken
from jv.callgraph import CallGraph
from jv.util import is_ref, is_mem, strip_casts

EXPLANATION = (
    "Static pairing rules: (PIN) provenance pairing of janet_gcroot / janet_gcunroot through queue records, "
    "cross-thread messages and the callback bound at the posting site, with a must-dataflow that the completing "
    "function unroots on every path; (FD) path-sensitive typestate of descriptors from socket/accept/open/pipe/dup/"
    "inotify_init/epoll_create/timerfd_create to close / ownership transfer on every exit including raises; "
    "(PENDING) who-may-modify listener_count; (LOOPDONE) structural reading of janet_loop_done.  Decides that "
    "every pin and descriptor has a release on every path of the parsed program, not the absence of hangs or the "
    "boundedness of heap use for a given completion order.")
ASSUMPTIONS = ["default Linux configuration (epoll, inotify)",
               "C20-FD: a pointer local assigned from a record field (e.g. addr = rp->ai_addr) is taken to be non-NULL when later compared with NULL", "roots taken for the lifetime of the VM (core environment, abstract registry) are listed exceptions"]

# gcroot sites that pin for the lifetime of the VM / by documented design: (function) -> reason
PIN_LIFETIME = {
    "janet_core_env": "memoised core environment, lives as long as the VM",
    "janet_init": "abstract type registry of the VM",
    "janet_go_thread_subr": "abstract type registry of the new thread's VM",
    "main": "the shell client's top-level fiber, pinned for the life of the process",
    "janet_ffi_getpointer": "documented: a Janet function handed to native code as a callback is pinned for good, "
                                      "native code may call it at any later time",
}

MSG = "JanetEVGenericMessage"


def _wrapped(call):
    """value expression inside janet_gcroot(janet_wrap_x(V)) -> (kind, V node)"""
    a = call.args[0] if call.args else None
    if a is None:
        return None, None
    # janet_wrap_* are macros in nanbox mode: find the pointer operand
    names = a.macro_names()
    kind = "janet"
    for m in names:
        if m.startswith("janet_wrap_"):
            kind = m[len("janet_wrap_"):]
    if a.k == "call" and (a.callee or "").startswith("janet_nanbox_from_"):
        v = strip_casts(a.args[0])
        return kind, v
    if a.k == "call" and (a.callee or "").startswith("janet_wrap_"):
        return a.callee[len("janet_wrap_"):], strip_casts(a.args[0])
    return kind, strip_casts(a)


class Pins(object):
    def __init__(self, prog):
        self.prog = prog
        self.cg = CallGraph(prog)

    def local_type(self, fn, name):
        for p in fn.params:
            if p["n"] == name:
                return p["t"].replace("const ", "").strip()
        for n in fn.nodes:
            if n.k == "vardecl" and n.name == name:
                return (n.t or "").replace("const ", "").strip()
        return None

    def msg_callback(self, fn, var):
        """callback function(s) a local JanetEVGenericMessage `var` is posted / launched with in fn"""
        out = set()
        for c in fn.calls():
            if any(is_ref(strip_casts(a), var) for a in c.args):
                for a in c.args:
                    fr = self.cg._fnref(a, fn.tu)
                    if fr is not None and fr in self.cg.funcs:
                        f2 = self.cg.funcs[fr]
                        if f2.params and f2.params[0]["t"].replace("const ", "").strip() == MSG and f2.ret == "void":
                            out.add(fr)
        return out

    def classify(self, fn, v):
        """provenance node of value expression v evaluated in fn"""
        v = strip_casts(v)
        aliases = {}
        for n in fn.nodes:
            if n.k == "vardecl" and n.kids:
                aliases[n.name] = strip_casts(n.kids[0])
        seen = 0
        while v.k == "ref" and v.name in aliases and seen < 4:
            nxt = aliases[v.name]
            # (JanetProc *) args.argp  /  msg.fiber
            if nxt.k in ("mem",):
                v = nxt
            else:
                break
            seen += 1
        if v.k == "mem":
            base = strip_casts(v.kids[0])
            if v.rec == MSG and base.k == "ref":
                bt = self.local_type(fn, base.name)
                if any(p["n"] == base.name for p in fn.params):
                    return ("msg", v.field, self.cg.fid(fn))
                cbs = self.msg_callback(fn, base.name)
                if cbs:
                    return ("msg", v.field, sorted(cbs, key=str)[0])
                return ("msg", v.field, None)
            return ("field", v.rec, v.field)
        if v.k == "ref":
            t = self.local_type(fn, v.name)
            # a local that is also stored into a record field in this function: provenance is that field
            for n in fn.nodes:
                if n.k == "asg" and n.op == "=" and n.kids[0].k == "mem" and is_ref(strip_casts(n.kids[1]), v.name):
                    return self.classify(fn, n.kids[0])
            return ("type", (t or "?").replace(" ", ""), fn.tu.name)
        return ("expr", v.text())

    def copy_edges(self):
        """edges between provenance nodes from assignments of one record field to another"""
        edges = {}
        for fn in self.prog.all_funcs():
            for n in fn.nodes:
                if n.k == "asg" and n.op == "=" and n.kids[0].k == "mem" and strip_casts(n.kids[1]).k == "mem":
                    src = self.classify(fn, n.kids[1])
                    dst = self.classify(fn, n.kids[0])
                    edges.setdefault(src, set()).add(dst)
        return edges


def _pin_rule(chk, prog):
    rule = "C20-PIN"
    chk.rule(rule, "every janet_gcroot has a janet_gcunroot of the same provenance on every path of the completing function")
    P = Pins(prog)
    edges = P.copy_edges()
    roots, unroots = [], []
    for fn in prog.all_funcs():
        if fn.tu.name == "gc.c":
            continue
        for c in fn.calls("janet_gcroot"):
            kind, v = _wrapped(c)
            roots.append((fn, c, kind, P.classify(fn, v) if v is not None else ("expr", "?")))
        for c in fn.calls("janet_gcunroot"):
            kind, v = _wrapped(c)
            unroots.append((fn, c, kind, P.classify(fn, v) if v is not None else ("expr", "?")))
    if len(roots) < 15:
        raise AnalysisBroken("only %d janet_gcroot sites found" % len(roots))
    chk.extra["pin_sites"] = [{"function": f.name, "line": c.ln, "class": str(cls)} for f, c, k, cls in roots]

    def reach(start):
        out = {start}
        work = [start]
        while work:
            x = work.pop()
            for y in edges.get(x, ()):
                if y not in out:
                    out.add(y)
                    work.append(y)
        return out

    def unroots_on_every_path(fn, call, carrier_text):
        """must-dataflow: every return path of fn passes `call` (or a NULL test of the carrier)"""
        def transfer(st, n):
            if n.k == "call" and n.callee and prog.is_noreturn(n.callee):
                return None
            if n is call:
                return frozenset(["u"])
            return st

        def edge(st, blk, succ, cond, truth):
            if cond is None:
                return st
            c = flow.compare_of(cond, truth)
            if c is not None and c[1] == "==":
                # carrier pointer is NULL on this edge: nothing was pinned
                l = strip_casts(c[0])
                r = strip_casts(c[2]) if c[2] is not None else None
                if (r is None or r.v == 0) and l.k in ("mem", "ref"):
                    return st | frozenset(["u"])
                if r is not None and l.v == 0 and r.k in ("mem", "ref"):
                    return st | frozenset(["u"])
            return st
        IN, OUT = flow.forward(fn, frozenset(), transfer, lambda a, b: a & b, edge=edge)
        st = IN.get(fn.exit)
        return st is None or "u" in st

    for fn, c, kind, cls in roots:
        chk.analysed(fn)
        chk.instance(rule)
        where = "%s:%s" % (fn.tu.name, fn.name)
        if fn.name in PIN_LIFETIME:
            chk.exception(rule, where, PIN_LIFETIME[fn.name])
            chk.ok(rule, "%s: VM-lifetime root" % where)
            continue
        R = reach(cls)
        cands = [(f2, c2) for (f2, c2, k2, cls2) in unroots if cls2 in R]
        if not cands:
            chk.violation(rule, fn.tu.name, fn.name, "root:%s" % (str(cls[-1]) if cls[0] != "msg" else "msg.%s" % cls[1]), c.loc,
                          "janet_gcroot(%s) pins a value of provenance %s, but no janet_gcunroot of that provenance exists in "
                          "the function that completes the wait (reachable provenance: %s): the value is never collected" % (
                              c.args[0].text()[:50], cls, sorted(str(x) for x in R)[:4]))
            continue
        good = [f2.name for (f2, c2) in cands if f2 is fn or unroots_on_every_path(f2, c2, None)]
        if good:
            chk.ok(rule, "%s: root of %s released in %s" % (where, cls, ",".join(sorted(set(good)))))
        else:
            f2, c2 = cands[0]
            chk.violation(rule, f2.tu.name, f2.name, "unroot-path:%s" % fn.name, c2.loc,
                          "the janet_gcunroot matching the root taken in %s is skipped on some path of %s" % (fn.name, f2.name))


def _pendroot_rule(chk, prog):
    """A fiber queued on a THREADED channel's pending list is rooted by the registration (nothing else keeps a parked
    fiber of another thread's channel alive).  Whoever takes such a record out of the queue takes over the duty to
    release that root: by handing the record to janet_thread_chan_cb (which unroots) or by janet_gcunroot on the spot.
    A consumer that resumes or drops the waiter without either leaves the fiber pinned for the life of the VM."""
    rule = "C20-PENDROOT"
    chk.rule(rule, "every consumer of a pending-waiter record of a possibly-threaded channel releases the registration's root")
    tu = prog.tus["ev.c"]
    n = 0
    for fn in tu.funcs.values():
        pops = []
        for c in fn.calls("janet_q_pop"):
            if len(c.args) >= 2 and any(y.k == "mem" and y.field in ("read_pending", "write_pending") for y in c.args[0].walk()):
                rec = strip_casts(c.args[1])
                if rec.k == "un" and rec.op == "&" and is_ref(strip_casts(rec.kids[0])):
                    pops.append((c, strip_casts(rec.kids[0]).name))
        if not pops:
            continue
        chk.analysed(fn)
        popmap = dict((c.id, r) for c, r in pops)
        thrvars = set(x.name for x in fn.nodes if x.k == "vardecl" and x.kids and strip_casts(x.kids[0]).k == "call"
                      and strip_casts(x.kids[0]).callee == "janet_chan_is_threaded")
        alias = {}
        for x in fn.nodes:
            if x.k == "asg" and x.op == "=" and is_ref(x.kids[0]) and strip_casts(x.kids[1]).k == "call" and strip_casts(x.kids[1]).id in popmap:
                alias[x.kids[0].name] = popmap[strip_casts(x.kids[1]).id]
        bad = {}

        def transfer(st, x):
            if x.k == "call" and x.id in popmap:
                r = popmap[x.id]
                if ("popped", r) in st and ("released", r) not in st and "nothr" not in st:
                    bad.setdefault(r, x)
                return frozenset(f for f in st if not (isinstance(f, tuple) and f[1] == r))
            if x.k == "call" and ((x.callee == "janet_ev_post_event" and any(is_ref(strip_casts(a), "janet_thread_chan_cb") for a in x.args))
                                  or x.callee == "janet_chan_post"):
                return st | frozenset(("released", f[1]) for f in st if isinstance(f, tuple) and f[0] == "popped")
            if x.k == "call" and x.callee == "janet_gcunroot":
                names = set(y.name for y in x.walk() if y.k == "ref")
                return st | frozenset(("released", f[1]) for f in st if isinstance(f, tuple) and f[0] == "popped" and f[1] in names)
            return st

        def edge(st, blk, succ, cond, truth):
            c = flow.compare_of(cond, truth)
            if c is None:
                return st
            l, op, r = strip_casts(c[0]), c[1], c[2]
            if r is None:
                if l.k == "call" and l.id in popmap:
                    return st | {("popped", popmap[l.id])} if op == "==" else st
                if is_ref(l) and l.name in alias:
                    return st | {("popped", alias[l.name])} if op == "==" else st
                if (is_ref(l) and l.name in thrvars) or (l.k == "call" and l.callee == "janet_chan_is_threaded"):
                    if op == "!=":
                        return None if "nothr" in st else st | {"thr"}
                    return None if "thr" in st else st | {"nothr"}
            return st
        IN, OUT, T = flow.forward_paths(fn, frozenset(), transfer, edge=edge)
        for b, kind in flow.exits(fn):
            if b.id not in OUT:
                continue
            for ps in OUT[b.id]:
                for f in ps:
                    if isinstance(f, tuple) and f[0] == "popped" and ("released", f[1]) not in ps and "nothr" not in ps:
                        bad.setdefault(f[1], b.elems[-1] if b.elems else None)
        for c, r in pops:
            n += 1
            chk.instance(rule)
            if r in bad:
                at = bad[r]
                chk.violation(rule, "ev.c", fn.name, "pending:%s" % r, c.loc,
                              "a waiter record `%s` taken from the pending queue can leave %s (%s) with the channel possibly threaded and "
                              "neither handed to janet_thread_chan_cb nor janet_gcunroot'ed: the fiber stays rooted forever" % (
                                  r, fn.name, at.loc if at is not None else "end"))
            else:
                chk.ok(rule, "%s: record `%s` popped at %s always releases (or the channel is not threaded)" % (fn.name, r, c.loc))
    chk.floor(rule, 6, n)


def _asyncroot_rule(chk, prog):
    """A fiber waiting on a stream keeps the stream alive through one root per registration: janet_async_start_fiber
    takes it when it installs fiber->ev_callback, janet_async_end drops it when it clears the callback.  The two
    functions run once each per wait, so the root must be taken on EVERY path that installs the callback and released
    on every path that clears it - a root that is skipped when the stream already has a listener is released twice
    (first completion frees the stream under the second waiter)."""
    rule = "C20-ASYNCROOT"
    chk.rule(rule, "the stream root is taken on every path that installs fiber->ev_callback and dropped on every path that clears it")
    tu = prog.tus["ev.c"]
    n = 0
    for fname, token_set, action in (("janet_async_start_fiber", True, "janet_gcroot"), ("janet_async_end", False, "janet_gcunroot")):
        fn = tu.funcs.get(fname)
        if fn is None:
            raise AnalysisBroken("%s not found" % fname)
        chk.analysed(fn)

        def transfer(st, x, token_set=token_set, action=action):
            if x.k == "asg" and x.op == "=" and x.kids[0].k == "mem" and x.kids[0].field == "ev_callback":
                isnull = strip_casts(x.kids[1]).v == 0
                if token_set != isnull:
                    return st | {"token"}
            if x.k == "call" and x.callee == action:
                return st | {"act"}
            return st
        IN, OUT, T = flow.forward_paths(fn, frozenset(), transfer)
        n += 1
        chk.instance(rule)
        bad = False
        seen_token = False
        for b, kind in flow.exits(fn):
            if kind != "return" or b.id not in OUT:
                continue
            for ps in OUT[b.id]:
                if "token" in ps:
                    seen_token = True
                    if "act" not in ps:
                        bad = True
        if not seen_token:
            raise AnalysisBroken("%s: no path %s fiber->ev_callback" % (fname, "installs" if token_set else "clears"))
        if bad:
            chk.violation(rule, "ev.c", fname, action, fn.loc,
                          "%s can %s fiber->ev_callback without calling %s on that path: registrations and stream roots get out of "
                          "step (a stream with two waiters loses its only root when the first one finishes)" % (
                              fname, "install" if token_set else "clear", action))
        else:
            chk.ok(rule, "%s: %s on every path that %s the callback" % (fname, action, "installs" if token_set else "clears"))
    chk.floor(rule, 2, n)


def _drain_rule(chk, prog):
    """Completions from helper threads reach the event loop through the self-pipe, which is registered edge-triggered:
    epoll reports it once when data arrives, not again while data remains.  The handler therefore has to keep reading
    until the read fails (EAGAIN); a handler that takes a fixed number of records leaves the rest in the pipe, their
    fibers are never resumed, the pending-work counter never reaches zero and the loop sleeps forever."""
    rule = "C20-DRAIN"
    chk.rule(rule, "the self-pipe handler reads again after every record it handled (drains until the read fails)")
    tu = prog.tus["ev.c"]
    fn = tu.funcs.get("janet_ev_handle_selfpipe")
    if fn is None:
        raise AnalysisBroken("janet_ev_handle_selfpipe not found")
    chk.analysed(fn)
    reads = [c for c in fn.calls("read")]
    handled = [x for x in fn.nodes if x.k == "call" and x.callee is None] + [c for c in fn.calls("janet_ev_dec_refcount")]
    if not reads or not handled:
        raise AnalysisBroken("janet_ev_handle_selfpipe: read / callback dispatch not found")

    def block_of(x):
        for b in fn.blocks.values():
            if any(e is x or any(y is x for y in e.walk()) for e in b.elems):
                return b.id
        return None
    rb = block_of(reads[0])
    chk.instance(rule)
    ok = True
    for h in handled:
        hb = block_of(h)
        if hb is None or rb is None or rb not in flow.reachable_from(fn, hb) or (hb == rb):
            ok = False
    if ok:
        chk.ok(rule, "janet_ev_handle_selfpipe: the read is reachable again from every record it dispatches")
    else:
        chk.violation(rule, "ev.c", fn.name, "drain", reads[0].loc,
                      "after handling a record janet_ev_handle_selfpipe cannot come back to the read: records still in the "
                      "(edge-triggered) self-pipe are never picked up and the fibers waiting for them stay suspended")


def run(chk):
    prog = Program.load("default")
    _pin_rule(chk, prog)
    _pendroot_rule(chk, prog)
    _asyncroot_rule(chk, prog)
    _drain_rule(chk, prog)
    from rules import c20_fd
    c20_fd.run(chk, prog)
    _pending_rule(chk, prog)
    _loopdone_rule(chk, prog)
    _threadjoin_rule(chk, prog)
    _armguard_rule(chk, prog)
    _postpair_rule(chk, prog)
    _reap_rule(chk, prog)
    _staletrim_rule(chk, prog)
    _fiberarity_rule(chk, prog)
    _heldacross_rule(chk, prog)
    _marshalheld_rule(chk, prog)
    _blocklists_rule(chk, prog)


ACQUIRE = ("socket", "accept", "accept4", "open", "dup", "inotify_init1", "inotify_init", "epoll_create1", "timerfd_create",
           "openat", "creat", "eventfd", "kqueue")
OWNERS = ("janet_stream", "janet_stream_ext", "make_stream", "fdopen", "janet_makefile", "janet_makejfile",
          # the descriptor number travels inside a marshalled message to the receiving thread, which wraps it in a stream
          "janet_marshal_int", "janet_marshal_int64")
CLOSERS = ("close", "closesocket", "fclose")


def _fd_rule(chk, prog):
    rule = "C20-FD"
    chk.rule(rule, "a descriptor obtained from the OS is closed, handed to an owner, stored or returned on every path of the acquiring function")
    nsites = 0
    for fn in prog.all_funcs():
        acq = {}
        for n in fn.nodes:
            rhs = None
            if n.k == "vardecl" and n.kids:
                var, rhs = n.name, strip_casts(n.kids[0])
            elif n.k == "asg" and n.op == "=" and is_ref(n.kids[0]):
                var, rhs = n.kids[0].name, strip_casts(n.kids[1])
            if rhs is not None and rhs.k == "call" and rhs.callee in ACQUIRE:
                acq.setdefault(var, []).append(n)
        if not acq:
            continue
        chk.analysed(fn)
        acqids = {}
        for var, ns in acq.items():
            for n in ns:
                acqids[n.id] = var
                nsites += 1

        def uses_var(e, var):
            return any(x.k == "ref" and x.name == var for x in e.walk())

        def transfer(facts, n):
            if n.id in acqids:
                old = [f for f in facts if f[0] == "open" and f[1] == acqids[n.id]]
                keep = frozenset(f for f in facts if f[1] != acqids[n.id])
                if old:
                    keep = keep | frozenset([("lost", acqids[n.id], old[0][2])])
                return keep | frozenset([("open", acqids[n.id], n.id)])
            if not facts:
                return facts
            if n.k == "call":
                if n.callee in CLOSERS or n.callee in OWNERS:
                    for a in n.args:
                        for f in list(facts):
                            if uses_var(a, f[1]):
                                facts = facts - frozenset([f])
                return facts
            # nullness of pointer locals (loop cursors such as `rp`, witnesses such as `addr`)
            if n.k == "asg" and n.op == "=" and is_ref(n.kids[0]) and "*" in (n.kids[0].t or ""):
                nm = n.kids[0].name
                facts = frozenset(f for f in facts if not (f[0] in ("nn", "nl") and f[1] == nm))
                r = strip_casts(n.kids[1])
                if r.v == 0:
                    facts = facts | frozenset([("nl", nm, 0)])
                elif r.k == "mem" and not (r.field or "").endswith("next"):
                    facts = facts | frozenset([("nn", nm, 0)])
            if n.k == "vardecl" and "*" in (n.t or "") and n.kids and strip_casts(n.kids[0]).v == 0:
                facts = frozenset(f for f in facts if not (f[0] in ("nn", "nl") and f[1] == n.name)) | frozenset([("nl", n.name, 0)])
            if n.k == "asg" and n.op == "=":
                # stored into a record field, array element or through a pointer: ownership moves
                if n.kids[0].k in ("mem", "sub", "un"):
                    for f in list(facts):
                        if uses_var(n.kids[1], f[1]):
                            facts = facts - frozenset([f])
                elif is_ref(n.kids[0]):
                    # copied to another local: track the copy instead
                    for f in list(facts):
                        if is_ref(strip_casts(n.kids[1]), f[1]):
                            facts = (facts - frozenset([f])) | frozenset([("open", n.kids[0].name, f[2])])
            if n.k == "vardecl" and n.kids:
                for f in list(facts):
                    if is_ref(strip_casts(n.kids[0]), f[1]):
                        facts = (facts - frozenset([f])) | frozenset([("open", n.name, f[2])])
            if n.k == "return" and n.kids:
                for f in list(facts):
                    if uses_var(n.kids[0], f[1]):
                        facts = facts - frozenset([f])
            return facts

        def edge(facts, blk, succ, cond, truth):
            if cond is None:
                return facts
            c = flow.compare_of(cond, truth)
            if c is None:
                return facts
            l = strip_casts(c[0])
            r = strip_casts(c[2]) if c[2] is not None else None
            # pointer local compared with NULL
            pv = None
            if l.k == "ref" and "*" in (l.t or "") and (r is None or r.v == 0):
                pv = l.name
            elif r is not None and r.k == "ref" and "*" in (r.t or "") and l.v == 0:
                pv = r.name
            if pv is not None and c[1] in ("==", "!="):
                want = "nl" if c[1] == "==" else "nn"
                other = "nn" if want == "nl" else "nl"
                if (other, pv, 0) in facts:
                    return None
                facts = facts | frozenset([(want, pv, 0)])
            for f in list(facts):
                v = f[1]
                if is_ref(l, v) and r is not None and r.v is not None:
                    # fd == -1, fd < 0: acquisition failed
                    if (c[1] == "==" and r.v == -1) or (c[1] == "<" and r.v == 0) or (c[1] == "<=" and r.v == -1):
                        facts = facts - frozenset([f])
            return facts

        IN, OUT, T = flow.forward_paths(fn, frozenset(), transfer, edge)
        reported = set()
        for b, S in IN.items():
            blk = fn.blocks[b]
            for n in blk.elems:
                is_exit = n.k == "return" or (n.k == "call" and n.callee and prog.is_noreturn(n.callee)
                                              and n.callee not in ("abort", "exit", "_exit"))
                if is_exit:
                    S2 = T(S, n) if n.k == "return" else S
                    for s in S2:
                        for f in s:
                            if f[0] == "open" and f[2] and (f[2], n.id) not in reported:
                                reported.add((f[2], n.id))
                                src = fn.nodes[f[2]]
                                chk.violation(rule, fn.tu.name, fn.name, "%s:%s" % (f[1], "raise" if n.k == "call" else "return"), n.loc,
                                              "descriptor `%s` obtained at line %d is still open and unowned when the function leaves "
                                              "through `%s`" % (f[1], src.ln, n.text()[:50]),
                                              ["acquire %s: %s" % (src.loc, src.text()[:80]), "exit    %s: %s" % (n.loc, n.text()[:80])])
                S = T(S, n)
                for s in S:
                    for f in s:
                        if f[0] == "lost" and (f[2], "lost") not in reported:
                            reported.add((f[2], "lost"))
                            src = fn.nodes[f[2]]
                            chk.violation(rule, fn.tu.name, fn.name, "%s:overwritten" % f[1], src.loc,
                                          "descriptor `%s` obtained at line %d is overwritten by a new one while still open" % (f[1], src.ln))
            # falling off the end of a void function
            if fn.exit in blk.succs and not blk.noreturn and not any(e.k == "return" for e in blk.elems):
                for s in S:
                    for f in s:
                        if f[0] == "open" and (f[2], -b) not in reported:
                            reported.add((f[2], -b))
                            src = fn.nodes[f[2]]
                            chk.violation(rule, fn.tu.name, fn.name, "%s:end" % f[1], src.loc,
                                          "descriptor `%s` obtained at line %d is still open and unowned at the end of the function" % (f[1], src.ln))
        for var, ns in acq.items():
            for n in ns:
                chk.instance(rule)
                if not any(r[0] == n.id for r in reported):
                    chk.ok(rule, "%s: %s released or owned on every path" % (fn.name, n.text()[:50]))
    if nsites < 8:
        raise AnalysisBroken("only %d descriptor acquisitions found" % nsites)


# listener_count bookkeeping sites confirmed by reading: (function, kind) -> token the site must be tied to
PENDING_SITES = {
    ("janet_async_start_fiber", "inc"): ("assigns", "ev_callback", "a listening fiber is registered (fiber->ev_callback set)"),
    ("janet_async_end", "dec"): ("guard", "ev_callback", "only when the fiber was listening; the callback is cleared in the same function"),
    ("janet_loop1", "inc"): ("assigns-flag", "JANET_FIBER_EV_FLAG_SUSPENDED", "the task's fiber is marked suspended"),
    ("janet_loop1", "dec"): ("guard-flag", "JANET_FIBER_EV_FLAG_SUSPENDED", "only for a fiber marked suspended; the flag is cleared next"),
    # (until the POSTPAIR fix this table said `guard cb`: it had been filled in from what the code did, and the code was
    #  wrong - janet_ev_post_event increments for every message, with or without callback)
    ("janet_ev_handle_selfpipe", "dec"): ("guard", "status", "one decrement per message read from the self-pipe (the increment is janet_ev_post_event's)"),
    ("janet_ev_threaded_call", "inc"): ("calls", "pthread_create", "a worker thread was started whose completion message is pending"),
    ("janet_deinit_block", "dec"): ("guard", "ev_state", "a collected fiber that was still listening"),
}


def _pending_rule(chk, prog):
    rule = "C20-PENDING"
    chk.rule(rule, "listener_count changes only through the refcount helpers / post_event; every inc/dec site is tied to its token")
    # who may modify
    for fn in prog.all_funcs():
        for n in fn.nodes:
            touch = None
            if n.k == "call" and n.callee in ("janet_atomic_inc", "janet_atomic_dec") and n.args and \
                    any(x.k == "mem" and x.field == "listener_count" for x in n.args[0].walk()):
                touch = n
            elif n.k in ("asg", "un") and n.kids and n.kids[0].k == "mem" and n.kids[0].field == "listener_count" and \
                    (n.k == "asg" or n.op in ("pre++", "post++", "pre--", "post--")):
                touch = n
            if touch is None:
                continue
            chk.instance(rule)
            init0 = touch.k == "asg" and touch.op == "=" and strip_casts(touch.kids[1]).v == 0
            if fn.name in ("janet_ev_inc_refcount", "janet_ev_dec_refcount", "janet_ev_post_event") or init0:
                chk.ok(rule, "%s modifies listener_count (%s)" % (fn.name, touch.text()[:40]))
            else:
                chk.violation(rule, fn.tu.name, fn.name, "listener_count", touch.loc,
                              "listener_count is modified outside janet_ev_inc_refcount/janet_ev_dec_refcount/janet_ev_post_event: %s" % touch.text()[:60])
    # sites
    seen = set()
    for fn in prog.all_funcs():
        for c in fn.calls("janet_ev_inc_refcount", "janet_ev_dec_refcount"):
            kind = "inc" if c.callee.endswith("inc_refcount") else "dec"
            key = (fn.name, kind)
            chk.instance(rule)
            if key not in PENDING_SITES:
                chk.violation(rule, fn.tu.name, fn.name, "site:%s" % kind, c.loc,
                              "new %s of the pending-work counter in %s: every site must be tied to a token that its "
                              "counterpart consumes (not in the confirmed table)" % (kind, fn.name))
                continue
            seen.add(key)
            how, tok, why = PENDING_SITES[key]
            ok = False
            if how == "assigns":
                ok = any(n.k == "asg" and n.kids[0].k == "mem" and n.kids[0].field == tok for n in fn.nodes)
            elif how == "calls":
                ok = bool(fn.calls(tok))
            elif how == "assigns-flag":
                ok = any(n.k == "asg" and n.op == "|=" and any(tok in x.macro_names() for x in n.kids[1].walk()) for n in fn.nodes)
            elif how in ("guard", "guard-flag"):
                # some ancestor `if` condition of the call mentions the token
                for a in c.ancestors():
                    if a.k == "if":
                        cond = a.kids[0]
                        if how == "guard" and any((x.k == "mem" and x.field == tok) or (x.k == "ref" and x.name == tok) for x in cond.walk()):
                            ok = True
                        if how == "guard-flag" and any(tok in x.macro_names() for x in cond.walk()):
                            ok = True
            if ok:
                chk.ok(rule, "%s %s: %s" % (fn.name, kind, why))
            else:
                chk.violation(rule, fn.tu.name, fn.name, "site:%s" % kind, c.loc,
                              "the %s of the pending-work counter in %s is no longer tied to its token (%s %s): %s" % (kind, fn.name, how, tok, why))
    missing = set(PENDING_SITES) - seen
    if missing:
        raise AnalysisBroken("pending-counter sites vanished: %s" % sorted(missing))


def _loopdone_rule(chk, prog):
    rule = "C20-LOOPDONE"
    chk.rule(rule, "janet_loop_done reads the run queue, the timer heap and listener_count; janet_loop re-tests it every iteration")
    fn = prog.need_func("janet_loop_done", "ev.c")
    chk.analysed(fn)
    fields = set()
    for n in fn.nodes:
        if n.k == "mem" and n.rec == "JanetVM":
            fields.add(n.field)
    want = {"spawn", "tq_count", "listener_count"}
    for f in sorted(want):
        chk.instance(rule)
        if f in fields:
            chk.ok(rule, "janet_loop_done reads janet_vm.%s" % f)
        else:
            chk.violation(rule, "ev.c", fn.name, f, fn.loc, "janet_loop_done no longer consults janet_vm.%s: the loop can end with that work pending" % f)
    for f in sorted(fields - want):
        chk.instance(rule)
        chk.violation(rule, "ev.c", fn.name, f, fn.loc, "janet_loop_done consults an additional source janet_vm.%s (review: the loop may now never end)" % f)
    lp = prog.need_func("janet_loop", "ev.c")
    chk.analysed(lp)
    chk.instance(rule)
    ok = any(n.k == "while" and any(c.k == "call" and c.callee == "janet_loop_done" for c in n.kids[0].walk()) for n in lp.nodes)
    if ok:
        chk.ok(rule, "janet_loop: while (!janet_loop_done())")
    else:
        chk.violation(rule, "ev.c", lp.name, "loop-condition", lp.loc, "janet_loop does not re-test janet_loop_done() as its loop condition")


def _threadjoin_rule(chk, prog):
    """An interrupting deadline (ev/deadline ... true) starts a joinable worker thread and keeps its handle in the timeout
    entry.  A joinable thread that is never joined (or detached) keeps its stack for ever, so whoever takes such an entry
    out of the timeout queue has to reap the worker - on every way an entry can leave the queue."""
    rule = "C20-THREADJOIN"
    chk.rule(rule, "a timeout entry that may carry a worker thread is joined or detached by whoever pops it from the timeout queue")
    tu = prog.tus["ev.c"]
    # premise: a worker handle is stored into a timeout entry somewhere
    stores = [x for f in tu.funcs.values() for x in f.nodes if x.k == "asg" and x.kids[0].k == "mem" and x.kids[0].field == "worker"]
    if not stores:
        raise AnalysisBroken("no store of a worker thread handle into a timeout entry found")
    n = 0
    for fn in tu.funcs.values():
        pops = [c for c in fn.calls("pop_timeout")]
        peeks = [c for c in fn.calls("peek_timeout")]
        if not pops or not peeks:
            continue
        chk.analysed(fn)

        def transfer(st, x):
            if x.k == "call" and x.callee == "peek_timeout":
                return frozenset()
            if x.k == "call" and x.callee == "pop_timeout":
                return st | frozenset(["popped"])
            if x.k == "call" and x.callee in ("pthread_join", "pthread_detach", "CloseHandle") and \
                    any(y.k == "mem" and y.field == "worker" for a in x.args for y in a.walk()):
                return st | frozenset(["reaped"])
            return st

        def edge(st, blk, succ, cond, truth):
            c = flow.compare_of(cond, truth)
            if c is None:
                return st
            l, op, r = strip_casts(c[0]), c[1], c[2]
            if l.k == "mem" and (r is None or strip_casts(r).v == 0):
                if l.field == "has_worker" and op == "==":
                    return st | frozenset(["noworker"])
                if l.field == "curr_fiber" and op == "==":
                    return st | frozenset(["noworker"])      # plain timeouts (no guarded fiber) never have a worker
            return st
        IN, OUT, T = flow.forward_paths(fn, frozenset(), transfer, edge, cap=512)
        bad = []
        for x, S in flow.states_at(fn, IN, T):
            if (x.k == "call" and x.callee == "peek_timeout") or x.k == "return":
                for ps in S:
                    if "popped" in ps and "reaped" not in ps and "noworker" not in ps:
                        bad.append(x)
        for c in pops:
            n += 1
            chk.instance(rule)
        if bad:
            chk.violation(rule, "ev.c", fn.name, "pop-without-reap", pops[0].loc,
                          "%s pops a timeout entry and reaches `%s` (%s) on a path that neither joined / detached the entry's worker thread "
                          "nor established that it has none: every expired interrupting deadline leaves an unjoined thread (and its stack) behind" % (
                              fn.name, bad[0].text()[:30], bad[0].loc))
        else:
            chk.ok(rule, "%s: every popped entry that may carry a worker is reaped" % fn.name, n=len(pops))
    chk.floor(rule, 3, n)


def _armguard_rule(chk, prog):
    """Inside `case A: case B:` the switch operand is A or B.  A test of that operand against some other constant is
    always false there, so whatever it guards never runs - in janet_ev_default_threaded_callback what it guards is the
    free() of a message payload.  A contradiction rule: it needs no knowledge of what the guarded statement is for."""
    rule = "C20-ARMGUARD"
    chk.rule(rule, "inside a switch arm, a test of the switch operand against a constant names one of the arm's own labels (a release guarded by another label's value never runs)")
    from jv.util import case_map, switch_cases, case_name
    n = 0
    for fn in prog.all_funcs():
        for sw in fn.nodes:
            if sw.k != "switch" or len(sw.kids) < 2 or any(x.k == "call" for x in sw.kids[0].walk()):
                continue
            scr = strip_casts(sw.kids[0]).text().replace(" ", "")
            vals = dict((case_name(c), c.d.get("v")) for c in switch_cases(sw))
            m = case_map(sw)
            # the operand must not be reassigned inside the switch
            if any(x.k == "asg" and strip_casts(x.kids[0]).text().replace(" ", "") == scr for x in sw.kids[1].walk()):
                continue
            for x in sw.kids[1].walk():
                if x.k != "bin" or x.op not in ("==", "!=") or x.id not in m:
                    continue
                a, b = strip_casts(x.kids[0]), strip_casts(x.kids[1])
                if a.text().replace(" ", "") != scr or b.v is None:
                    continue
                arm = m[x.id]
                if "default" in arm or not arm:
                    continue
                n += 1
                chk.instance(rule)
                armvals = [vals.get(nm) for nm in arm]
                if b.v in armvals:
                    chk.ok(rule, "%s: `%s` inside case %s" % (fn.name, x.text()[:40], "/".join(arm)))
                else:
                    chk.analysed(fn)
                    chk.violation(rule, fn.tu.name, fn.name, "%s:%s" % ("/".join(arm), b.v), x.loc,
                                  "`%s` is evaluated inside the arm for %s, where the operand can only be %s: the test is always %s, and what "
                                  "it guards (here the release of the message's heap payload) never happens" % (
                                      x.text()[:60], "/".join(arm), " or ".join(str(v) for v in armvals), "false" if x.op == "==" else "true"))
    chk.floor(rule, 20, n)


def _postpair_rule(chk, prog):
    """janet_ev_post_event counts every message it writes to a thread's self-pipe as pending work for that thread
    (listener_count++), which keeps its event loop alive until the message has been consumed.  The consumer therefore
    has to give the count back for EVERY message it reads - also for one without a callback (janet_loop1_interrupt)."""
    rule = "C20-POSTPAIR"
    chk.rule(rule, "the self-pipe handler gives back the pending-work count for every message it reads, whatever the message contains")
    tu = prog.tus["ev.c"]
    post = tu.funcs.get("janet_ev_post_event")
    if post is None or not any(c.callee in ("janet_atomic_inc",) and "listener_count" in c.text() for c in post.calls()):
        raise AnalysisBroken("janet_ev_post_event: increment of listener_count not found")
    fn = tu.funcs.get("janet_ev_handle_selfpipe")
    if fn is None:
        raise AnalysisBroken("janet_ev_handle_selfpipe not found")
    chk.analysed(fn)
    reads = [c for c in fn.calls("read")]
    if not reads:
        raise AnalysisBroken("janet_ev_handle_selfpipe: read of the self-pipe not found")
    resvar = None
    p_ = reads[0].parent
    while p_ is not None and p_.k not in ("asg", "vardecl"):
        p_ = p_.parent
    if p_ is not None:
        resvar = p_.kids[0].name if p_.k == "asg" else p_.name

    def transfer(st, x):
        if x.k == "call" and x.callee == "janet_ev_dec_refcount":
            return st - frozenset(["msg"])
        return st

    def edge(st, blk, succ, cond, truth):
        c = flow.compare_of(cond, truth)
        if c is None or c[2] is None:
            return st
        l, op, r = strip_casts(c[0]), c[1], strip_casts(c[2])
        if is_ref(l, resvar) and r.v == 0 and op == ">":
            return st | frozenset(["msg"])
        return st
    IN, OUT, T = flow.forward_paths(fn, frozenset(), transfer, edge)
    bad = None
    for x, S in flow.states_at(fn, IN, T):
        if x in reads:
            for ps in S:
                if "msg" in ps:
                    bad = x
    ex = IN.get(fn.exit)
    chk.instance(rule)
    if bad is not None or (ex and any("msg" in ps for ps in ex)):
        chk.violation(rule, "ev.c", fn.name, "message-without-decrement", reads[0].loc,
                      "after a message was read from the self-pipe (`%s > 0`), the handler can go on to the next read / return without "
                      "janet_ev_dec_refcount: a message without callback (janet_loop1_interrupt) leaves listener_count one too high for "
                      "ever and janet_loop never finds the loop idle again" % resvar)
    else:
        chk.ok(rule, "janet_ev_handle_selfpipe: every message read is matched by janet_ev_dec_refcount")


def _reap_rule(chk, prog):
    """The finaliser of a process handle that was never waited for kills the child and then has to REAP it: a killed
    child stays a zombie until somebody waits for it, and after the finaliser nobody else ever will.  SIGKILL is
    asynchronous, so right after kill() the child has normally not exited yet - a non-blocking wait (WNOHANG) finds
    nothing to reap and the zombie stays for the life of the process."""
    rule = "C20-REAP"
    chk.rule(rule, "the process finaliser waits for the child it has just killed with a blocking waitpid")
    fn = next((f for f in prog.all_funcs() if f.name == "janet_proc_gc"), None)
    if fn is None:
        raise AnalysisBroken("janet_proc_gc not found")
    chk.analysed(fn)
    kills = fn.calls("kill")
    waits = [c for c in fn.calls("waitpid") if len(c.args) == 3]
    if not kills or not waits:
        raise AnalysisBroken("janet_proc_gc: kill / waitpid not found")
    for c in waits:
        chk.instance(rule)
        opt = strip_casts(c.args[2])
        if opt.v == 0:
            chk.ok(rule, "janet_proc_gc: `%s` blocks until the killed child is reaped" % c.text()[:40])
        else:
            chk.violation(rule, fn.tu.name, fn.name, "waitpid-options", c.loc,
                          "`%s` does not block (options %s): immediately after kill(SIGKILL) the child has not exited yet, nothing is "
                          "reaped, and the handle is freed - the child remains a zombie until janet exits" % (c.text()[:50], opt.text()))


def _staletrim_rule(chk, prog):
    """A parked channel operation leaves a registration (fiber, generation) in the channel's pending queue, and the
    channel's mark function keeps that fiber alive.  When the wait is abandoned - cancelled, timed out, a select resolved
    elsewhere - the registration is only discovered by the opposite operation.  On a channel where that operation never
    comes (a long-lived channel nobody writes to, polled with timeouts) they would accumulate without bound, so the code
    that adds a registration has to discard stale ones first."""
    rule = "C20-STALETRIM"
    chk.rule(rule, "every site that adds a registration to a channel's pending queue discards stale registrations first (cancelled waits stay bounded)")
    tu = prog.tus["ev.c"]
    # helpers that pop a pending queue, compare the entry's generation with its fiber's and wake nobody
    trimmers = set()
    for fn in tu.funcs.values():
        pops = [c for c in fn.calls("janet_q_pop")]
        cmps = [x for x in fn.nodes if x.k == "bin" and x.op in ("==", "!=") and
                sum(1 for y in x.walk() if y.k == "mem" and y.field == "sched_id") >= 2]
        wakes = fn.calls("janet_schedule", "janet_schedule_signal", "janet_cancel", "janet_ev_post_event", "janet_chan_post")
        if pops and cmps and not wakes:
            trimmers.add(fn.name)
    n = 0
    # a trimmer that stops at the first live entry leaves every stale registration behind it: one fiber parked for good
    # in (ev/take ch) makes all later cancelled takes pile up.  Somewhere it must go through the whole ring: a loop that
    # pops and compares and does not leave at the first live entry.
    for t in sorted(trimmers):
        fn = tu.funcs[t]
        chk.analysed(fn)
        n += 1
        chk.instance(rule)
        full = False
        for lp in [x for x in fn.nodes if x.k in ("for", "while", "do")]:
            body = list(lp.walk())
            if any(y.k == "call" and y.callee == "janet_q_pop" for y in body) and \
                    any(y.k == "mem" and y.field == "sched_id" for y in body) and not any(y.k == "break" for y in body) and \
                    not any(y.k == "return" for y in body):
                full = True
        # the full pass is triggered when the ring is about to grow; that test has to be the ring's own growth test
        # (count + 1 >= capacity - one slot always stays free), or it never fires
        rs = tu.funcs.get("janet_q_maybe_resize")
        trig_ok = True
        if full and rs is not None:
            def norm(e):
                return e.text().replace(" ", "").replace("(", "").replace(")", "")
            grow = [norm(x) for x in rs.nodes if x.k == "bin" and x.op == ">=" and any(y.k == "mem" and y.field == "capacity" for y in x.walk())]
            mine = [x for x in fn.nodes if x.k == "bin" and x.op in (">=", ">", "==") and any(y.k == "mem" and y.field == "capacity" for y in x.walk())]
            import re as _re
            shape = lambda t_: _re.sub(r"[A-Za-z_][A-Za-z_0-9]*(->[A-Za-z_]+)?", lambda m: "cap" if "capacity" in m.group(0) else "n", t_)
            if grow and mine and not any(shape(norm(m)) == shape(g) for m in mine for g in grow):
                trig_ok = False
                chk.violation(rule, "ev.c", t, "trigger", mine[0].loc,
                              "`%s` is meant to fire when the ring is full, but a ring is full at `%s` (janet_q_maybe_resize keeps one "
                              "slot free): this test never holds, the pass over the whole ring never runs, and stale registrations "
                              "behind a live waiter pile up again" % (mine[0].text()[:50], grow[0]))
        if full and trig_ok:
            chk.ok(rule, "%s: has a pass over every entry of the ring" % t)
        elif full:
            pass
        else:
            chk.violation(rule, "ev.c", t, "head-only", fn.loc,
                          "%s only drops stale registrations at the head of the queue and stops at the first live one: behind a "
                          "fiber that stays parked, the registrations of cancelled or timed-out waits are never removed and keep "
                          "their fibers alive without bound" % t)
    for fn in tu.funcs.values():
        regs = [c for c in fn.calls("janet_q_push") if c.args and any(y.k == "mem" and y.field in ("read_pending", "write_pending") for y in c.args[0].walk())]
        if not regs:
            continue
        chk.analysed(fn)

        def qname(c):
            return [y.field for y in c.args[0].walk() if y.k == "mem" and y.field in ("read_pending", "write_pending")][0]

        def transfer(st, x):
            if x.k == "call" and x.callee in trimmers and len(x.args) >= 2:
                q = [y.field for a in x.args for y in a.walk() if y.k == "mem" and y.field in ("read_pending", "write_pending")]
                if q:
                    return st | frozenset(q)
            return st
        IN, OUT = flow.forward(fn, frozenset(), transfer, lambda a, b: a & b)
        for x, st in flow.states_at(fn, IN, transfer):
            if x not in regs:
                continue
            n += 1
            chk.instance(rule)
            q = qname(x)
            if q in st:
                chk.ok(rule, "%s: stale entries of %s are discarded before a new one is added" % (fn.name, q))
            else:
                chk.violation(rule, "ev.c", fn.name, "register:%s" % q, x.loc,
                              "`%s` adds a registration to %s without discarding stale ones first (helpers that do: %s): registrations of "
                              "waits that were cancelled or timed out stay queued, and keep their fibers alive, until the opposite "
                              "operation happens - on a quiet channel for ever" % (x.text()[:50], q, sorted(trimmers) or "none"))
    chk.floor(rule, 2, n)


# janet_fiber call sites inside event-loop callbacks, where the function was admitted earlier, by the cfunction that
# registered it: (unit, function) -> (unit, registering cfunction, number of arguments the callback passes)
FIBER_ADMISSION = {
    ("net.c", "net_callback_accept"): ("net.c", "cfun_stream_accept_loop", 1),
    ("os.c", "janet_signal_callback"): ("os.c", "os_sigaction", 0),
}


def _admits(fn, argc):
    """does `fn` refuse (raise) functions whose arity does not admit `argc` arguments"""
    lo = hi = False
    for x in fn.nodes:
        if x.k == "bin" and x.op in (">", ">=", "<", "<=", "!="):
            a, b = strip_casts(x.kids[0]), strip_casts(x.kids[1])
            if a.k == "mem" and b.k == "int":
                if a.field == "min_arity" and ((x.op == ">" and b.v == argc) or (x.op == ">=" and b.v == argc + 1)):
                    lo = True
                if a.field == "max_arity" and ((x.op == "<" and b.v == argc) or (x.op == "<=" and b.v == argc - 1)):
                    hi = True
    return lo and (hi or argc == 0)     # max_arity is never below 0: nothing to test for a call without arguments


def _fiberarity_rule(chk, prog):
    """janet_fiber(fn, capacity, argc, argv) returns NULL when fn does not accept argc arguments.  Code that builds a
    fiber for a user-supplied function - the worker of net/accept-loop, a signal handler, a task - either tests the
    result, or the function was admitted for exactly that argument count when it was registered.  `min_arity < 1`
    is not such a test: it lets (fn [a b] ...) through, and the first connection dereferences NULL."""
    rule = "C20-FIBERARITY"
    chk.rule(rule, "the result of janet_fiber for a user-supplied function is tested for NULL, or the function was admitted for exactly the argument count it is started with")
    byname = {}
    for f in prog.all_funcs():
        byname.setdefault((f.tu.name, f.name), f)
    n = 0
    for fn in prog.all_funcs():
        for c in fn.calls("janet_fiber", "janet_fiber_reset"):
            if fn.name in ("janet_fiber", "janet_fiber_reset"):
                continue
            n += 1
            chk.instance(rule)
            chk.analysed(fn)
            off = 0 if c.callee == "janet_fiber" else 0
            callee = strip_casts(c.args[0] if c.callee == "janet_fiber" else c.args[1])
            argc = strip_casts(c.args[2])
            # where the result goes
            p = c.parent
            while p is not None and p.k in ("cast", "paren"):
                p = p.parent
            res = None
            if p is not None and p.k == "vardecl":
                res = p.name
            elif p is not None and p.k == "asg" and p.kids[0].k == "ref":
                res = p.kids[0].name
            tested = res is not None and any(
                x.k == "bin" and x.op in ("==", "!=") and any(strip_casts(k).k == "ref" and strip_casts(k).name == res for k in x.kids) and
                any(strip_casts(k).text() in ("NULL", "((void *)0)", "0") for k in x.kids) for x in fn.nodes) or \
                (res is not None and any(x.k == "un" and x.op == "!" and strip_casts(x.kids[0]).k == "ref" and strip_casts(x.kids[0]).name == res for x in fn.nodes))
            thunk = callee.k == "ref" and any(
                (x.k == "vardecl" and x.name == callee.name and x.kids and strip_casts(x.kids[0]).k == "call" and
                 strip_casts(x.kids[0]).callee in ("janet_thunk", "janet_thunk_delay")) for x in fn.nodes)
            own_min = argc.k == "mem" and argc.field == "min_arity"
            if tested:
                chk.ok(rule, "%s: result of `%s` tested for NULL" % (fn.name, c.text()[:40]))
            elif thunk and argc.k == "int" and argc.v == 0:
                chk.ok(rule, "%s: a thunk started without arguments" % fn.name)
            elif own_min:
                chk.ok(rule, "%s: started with exactly the function's own minimum arity" % fn.name)
            elif (fn.tu.name, fn.name) in FIBER_ADMISSION:
                u, g, k = FIBER_ADMISSION[(fn.tu.name, fn.name)]
                gf = byname.get((u, g))
                if gf is None:
                    raise AnalysisBroken("registering function %s:%s not found" % (u, g))
                if argc.k == "int" and argc.v == k and _admits(gf, k):
                    chk.ok(rule, "%s: admitted for %d argument(s) by %s" % (fn.name, k, g))
                else:
                    chk.violation(rule, fn.tu.name, fn.name, "unadmitted:" + g, c.loc,
                                  "`%s` starts a user-supplied function with %s argument(s) and uses the fiber without a NULL test, but %s "
                                  "does not refuse functions whose arity excludes that count (it needs `min_arity > %d`%s): such a function "
                                  "makes janet_fiber return NULL and the callback dereferences it" % (
                                      c.text()[:50], argc.text(), g, k, " and `max_arity < %d`" % k if k else ""))
            elif fn.tu.name == "shell.c" and fn.name == "main" and "cli-main" in "".join(x.d.get("s", "") for x in fn.nodes if x.k == "str"):
                # not a user-supplied function: the core library's own entry point - read its parameter list
                from rules.c17_boot import _load
                from jv import janetsrc as js
                top = js.toplevel(_load())
                params, _ = js.fn_parts(top["cli-main"][1]) if "cli-main" in top else (None, [])
                names = [k.v for k in params.v] if params is not None else None
                if names is not None and (len(names) == 1 or "&" in names or "&opt" in names) and argc.k == "int" and argc.v == 1:
                    chk.ok(rule, "main: cli-main is defined in boot.janet with the parameter list %s" % names)
                else:
                    chk.violation(rule, "shell.c", "main", "cli-main-arity", c.loc,
                                  "main starts cli-main with %s argument(s) but boot.janet defines it with %s" % (argc.text(), names))
            else:
                chk.violation(rule, fn.tu.name, fn.name, "unchecked", c.loc,
                              "`%s`: janet_fiber returns NULL when the function does not accept %s argument(s); the result is used "
                              "without a test and no admission check is known for this site" % (c.text()[:50], argc.text()))
    chk.floor(rule, 8, n)


VM_ENTRY = ("janet_call", "janet_pcall", "janet_mcall", "janet_continue", "janet_continue_signal")
RAW_ALLOC = ("janet_malloc", "janet_calloc", "janet_realloc", "malloc", "calloc", "realloc")
RAW_FREE = ("janet_free", "free")


def _heldacross_rule(chk, prog):
    """A C function that calls back into Janet code (a substitution function, a method) is left by longjmp when that
    code raises - an ordinary event, `error` in a callback.  Whatever the function then holds in plain malloc memory
    (a stack JanetBuffer set up with janet_buffer_init, a search table from calloc) is lost on every such call.
    Memory that must survive a callback is scratch memory (janet_smalloc) or a collected object."""
    rule = "C20-HELDACROSSCALL"
    chk.rule(rule, "no C function holds plain malloc memory (a janet_buffer_init'd stack buffer, a calloc'd table) across a call that runs Janet code")
    cg = CallGraph(prog)
    # functions that run Janet code, through direct calls only
    rev = {}
    for fid, sites in cg.sites.items():
        for (n, tgt, kind) in sites:
            if kind != "direct":
                continue
            for t in tgt:
                rev.setdefault(t if isinstance(t, tuple) else t, set()).add(fid)
    runs = set()
    work = [fid for fid in cg.funcs if fid[1] in VM_ENTRY]
    while work:
        f = work.pop()
        if f in runs:
            continue
        runs.add(f)
        work.extend(rev.get(f, ()))
    run_names = set(f[1] for f in runs)
    # per unit: helpers that leave malloc memory in a struct handed to them (kmp_init, and wrappers of it), and their inverses
    n = 0
    for tu in prog.tus.values():
        acq, rel = {}, {}
        changed = True
        funcs = list(tu.funcs.values())
        while changed:
            changed = False
            for g in funcs:
                if g.name in acq or g.name in rel:
                    continue
                pnames = [p["n"] for p in g.params]
                for x in g.nodes:
                    # p->field = malloc(...)  /  local = malloc(...); p->field = local
                    if x.k == "asg" and x.kids[0].k == "mem":
                        base = strip_casts(x.kids[0].kids[0])
                        while base.k == "mem":
                            base = strip_casts(base.kids[0])
                        while base.k == "un" and base.op == "&":
                            base = strip_casts(base.kids[0])
                        if base.k == "ref" and base.name in pnames:
                            r = strip_casts(x.kids[1])
                            is_alloc = (r.k == "call" and r.callee in RAW_ALLOC) or \
                                (r.k == "ref" and any(d.k == "vardecl" and d.name == r.name and d.kids and strip_casts(d.kids[0]).k == "call" and
                                                      strip_casts(d.kids[0]).callee in RAW_ALLOC for d in g.nodes))
                            if is_alloc and not g.calls(*RAW_FREE):
                                acq[g.name] = pnames.index(base.name)
                                changed = True
                    if x.k == "call" and x.callee in acq and x.callee != g.name:
                        a = strip_casts(x.args[acq[x.callee]]) if acq[x.callee] < len(x.args) else None
                        while a is not None and a.k in ("un", "mem"):
                            a = strip_casts(a.kids[0])
                        if a is not None and a.k == "ref" and a.name in pnames and g.name not in acq:
                            acq[g.name] = pnames.index(a.name)
                            changed = True
                    if x.k == "call" and x.callee in RAW_FREE and x.args:
                        a = strip_casts(x.args[0])
                        if a.k == "mem":
                            base = strip_casts(a.kids[0])
                            if base.k == "ref" and base.name in pnames and g.name not in rel:
                                rel[g.name] = pnames.index(base.name)
                                changed = True
        acq["janet_buffer_init"] = 0
        rel["janet_buffer_deinit"] = 0
        for fn in funcs:
            if fn.name in acq or fn.name in rel:
                continue
            calls = [c for c in fn.nodes if c.k == "call" and c.callee in run_names and (fn.tu.name, fn.name) != ("vm.c", c.callee)]
            if not calls or not any(c.callee in acq for c in fn.nodes if c.k == "call"):
                continue

            def local_of(a):
                a = strip_casts(a)
                if a.k == "un" and a.op == "&":
                    a = strip_casts(a.kids[0])
                    while a.k == "mem":
                        a = strip_casts(a.kids[0])
                    if a.k == "ref" and any(d.k == "vardecl" and d.name == a.name for d in fn.nodes):
                        return a.name
                return None

            def transfer(st, x):
                if x.k == "call" and x.callee in acq and acq[x.callee] < len(x.args):
                    v = local_of(x.args[acq[x.callee]])
                    if v:
                        return st | {v}
                if x.k == "call" and x.callee in rel and rel[x.callee] < len(x.args):
                    v = local_of(x.args[rel[x.callee]])
                    if v:
                        return st - {v}
                return st
            IN, OUT, T = flow.forward_paths(fn, frozenset(), transfer)
            chk.analysed(fn)
            seen = set()
            for x, S in flow.states_at(fn, IN, T):
                if x in calls and id(x) not in seen:
                    seen.add(id(x))
                    n += 1
                    chk.instance(rule)
                    held = sorted(set().union(*S)) if S else []
                    if not held:
                        chk.ok(rule, "%s: nothing in plain malloc memory is held at `%s`" % (fn.name, x.text()[:40]))
                    else:
                        chk.violation(rule, fn.tu.name, fn.name, "held:%s@%s" % ("+".join(held), x.callee), x.loc,
                                      "`%s` can run Janet code, and %s holds malloc memory in `%s` at that point: when the called code "
                                      "raises, the function is left by longjmp and that memory is never freed - once per call" % (
                                          x.text()[:50], fn.name, ", ".join(held)))
    chk.floor(rule, 2, n)


def _marshalheld_rule(chk, prog):
    """janet_marshal raises for values that cannot be marshalled (a running fiber, a stream, a C pointer ...): an
    ordinary outcome for a user-supplied value.  A message that is being built in plain malloc memory for another
    thread is lost on that raise - the whole buffer, once per failed call - unless the marshalling runs under
    janet_try and the failure path releases the buffer before the error goes on."""
    rule = "C20-MARSHALHELD"
    chk.rule(rule, "a message marshalled into malloc memory is built under janet_try, and the buffer is freed on the failure path")
    n = 0
    for fn in prog.all_funcs():
        mallocd = set()
        for x in fn.nodes:
            if x.k == "vardecl" and x.kids and strip_casts(x.kids[0]).k == "call" and strip_casts(x.kids[0]).callee in ("janet_malloc", "malloc", "janet_calloc"):
                mallocd.add(x.name)
        ms = [c for c in fn.calls("janet_marshal") if c.args and is_ref(strip_casts(c.args[0])) and strip_casts(c.args[0]).name in mallocd]
        if not ms:
            continue
        n += 1
        chk.instance(rule)
        chk.analysed(fn)
        order = {id(x): i for i, x in enumerate(fn.nodes)}
        buf = strip_casts(ms[0].args[0]).name
        tries = [x for x in fn.nodes if "janet_try" in x.macro_names() or (x.k == "call" and x.callee in ("janet_try_init", "_setjmp", "setjmp"))]
        guarded = tries and all(min(order[id(t)] for t in tries) < order[id(c)] for c in ms)
        frees = [c for c in fn.calls("janet_free", "free") if c.args and is_ref(strip_casts(c.args[0]), buf)]
        if guarded and frees:
            chk.ok(rule, "%s: `%s` is filled under janet_try and freed when marshalling fails" % (fn.name, buf))
        else:
            chk.violation(rule, fn.tu.name, fn.name, "unguarded:" + buf, ms[0].loc,
                          "`%s` marshals a caller-supplied value into the malloc'ed `%s` %s: when the value cannot be marshalled the "
                          "function is left by longjmp and the buffer with everything written so far is lost" % (
                              ms[0].text()[:50], buf, "without janet_try" if not guarded else "and never frees it"))
    chk.floor(rule, 1, n)


def _blocklists_rule(chk, prog):
    """Every collectable object sits on one of the VM's block lists (fields of JanetVM of type JanetGCObject *).  The
    sweep walks each list to free the unreachable ones, and janet_clear_memory - run when a VM is torn down, i.e. at
    every thread exit - has to walk each list to free everything.  A list one of the two does not walk is memory that
    is never released: per collection in the first case, per thread in the second."""
    rule = "C20-BLOCKLISTS"
    chk.rule(rule, "janet_sweep and janet_clear_memory both walk every block list of the VM (each JanetVM field of type JanetGCObject *)")
    vm = prog.records.get("JanetVM")
    if vm is None:
        raise AnalysisBroken("record JanetVM not found")
    # the lists are the JanetVM fields janet_gcalloc links a new object into (`janet_vm.<field> = mem`)
    alloc = prog.need_func("janet_gcalloc", "gc.c")
    lists = sorted(set(x.kids[0].field for x in alloc.nodes if x.k == "asg" and x.op == "=" and x.kids[0].k == "mem" and x.kids[0].rec == "JanetVM"
                       and strip_casts(x.kids[1]).k == "ref" and "*" in (strip_casts(x.kids[1]).t or "")))
    if len(lists) < 2:
        raise AnalysisBroken("JanetVM: block list fields not recognised (%s)" % lists)
    for fname in ("janet_sweep", "janet_clear_memory"):
        fn = prog.need_func(fname, "gc.c")
        chk.analysed(fn)
        read = set(x.field for x in fn.nodes if x.k == "mem" and x.rec == "JanetVM")
        for l in lists:
            chk.instance(rule)
            if l in read:
                chk.ok(rule, "%s walks janet_vm.%s" % (fname, l))
            else:
                chk.violation(rule, "gc.c", fname, l, fn.loc,
                              "%s does not touch janet_vm.%s: the objects on that list (weak tables and arrays live on a list of their own) "
                              "are never freed by it - every thread that exits leaks all of them" % (fname, l))
    chk.floor(rule, 4)
