"""C02 - compiled bytecode means what the source means: structural clauses.

C02-COMMIT    run_vm: every call that may raise is dominated, in its handler, by a commit of pc to the frame
C02-OPTABLES  opcode enum, instruction-type table, dispatch table, handler labels, assembler mnemonics agree
C02-EMITFORM  every janetc_emit_<form>(c, OP, ...) uses the form matching OP's operand layout
C02-SRCMAP    bytecode and source map are appended / moved together
"""
from jv import flow
from jv.facts import Program, AnalysisBroken
from jv.summaries import Summaries
from jv.vm import VMHandlers
from jv.util import is_ref, is_mem, strip_casts, case_map

EXPLANATION = (
    "Static rules: (COMMIT) must-dataflow over run_vm's CFG per opcode handler with an interprocedural "
    "may-panic summary - a raise is attributed to the committed pc, so every may-panic call must be "
    "dominated by vm_commit with no pc change in between; (OPTABLES/EMITFORM) cross-checks of the opcode "
    "enum, janet_instructions[], op_lookup[], handler labels, assembler table and the emitter form used at "
    "every emission site; (SRCMAP) bytecode and sourcemap stores are paired.  Necessary structural "
    "conditions for correct compilation and error attribution; program equivalence is not decided.")
ASSUMPTIONS = ["default Linux configuration with computed gotos", "semantic correctness of scoping/closures/jumps is not decided"]


def _commit_rule(chk, prog, S):
    rule = "C02-COMMIT"
    chk.rule(rule, "run_vm: may-panic calls are dominated by vm_commit() (frame pc = pc) within the handler")
    vm = VMHandlers(prog)
    fn = vm.fn
    chk.analysed(fn)
    dispatch = fn.igoto

    def is_commit(n):
        return n.k == "asg" and n.op == "=" and is_mem(n.kids[0], "pc", "JanetStackFrame") and is_ref(strip_casts(n.kids[1]), "pc")

    def writes_pc(n):
        if n.k == "asg" and is_ref(n.kids[0], "pc"):
            return True
        if n.k == "un" and n.op in ("pre++", "post++", "pre--", "post--") and is_ref(n.kids[0], "pc"):
            return True
        return False

    panic_calls = [n for n in fn.nodes if n.k == "call" and S.call_in(fn, n, S.may_panic)]
    pids = set(n.id for n in panic_calls)
    chk.instance(rule, len(panic_calls))
    C = frozenset(["c"])
    U = frozenset()

    def transfer(st, n):
        if is_commit(n):
            return C
        if writes_pc(n):
            return U
        return st

    def edge(st, blk, succ, cond, truth):
        if succ == dispatch:
            return None
        return st

    merged = {}
    for e in [fn.entry] + list(vm.handler_entry_blocks().values()):
        I, O = flow.forward(fn, U, transfer, lambda a, b: a & b, edge=edge, start=e)
        for b, st in I.items():
            merged[b] = (merged[b] & st) if b in merged else st
    for b, st in merged.items():
        for n in fn.blocks[b].elems:
            if n.id in pids:
                h = (vm.handler_of(n) or "?").replace("label_", "")
                if "c" in st:
                    chk.ok(rule, "%s: %s" % (h, n.text()[:50]))
                else:
                    chk.violation(rule, fn.tu.name, fn.name, "%s:%s" % (h, n.callee or "cfun-pointer"), n.loc,
                                  "%s may raise, but the frame's pc was not committed on every path to it in this "
                                  "handler: the error would be attributed to the previously committed instruction" % n.text()[:60])
            st = transfer(st, n)
    chk.floor(rule, 60)


def run(chk):
    prog = Program.load("default")
    S = Summaries(prog)
    _commit_rule(chk, prog, S)


# ------------------------------------------------------------------------------------------------
# operand layouts: the emitter form and the opcode's instruction type must place operands at the same widths
# (signedness of an immediate does not change the encoding)
L_D = ("D24",)
L_AE = ("A8", "E16")
L_ABC = ("A8", "B8", "C8")
FORM_LAYOUT = {"s": L_D, "ss": L_AE, "sss": L_ABC, "ssi": L_ABC, "ssu": L_ABC, "si": L_AE, "su": L_AE, "sl": L_AE, "st": L_AE}
TYPE_LAYOUT = {"JINT_S": L_D, "JINT_SS": L_AE, "JINT_SSS": L_ABC, "JINT_SES": L_ABC, "JINT_SSI": L_ABC, "JINT_SSU": L_ABC,
               "JINT_SI": L_AE, "JINT_SU": L_AE, "JINT_SL": L_AE, "JINT_ST": L_AE, "JINT_SD": L_AE, "JINT_SC": L_AE,
               "JINT_0": (), "JINT_L": ("L24",)}
FORM_TYPES = FORM_LAYOUT


def _optables_rule(chk, prog):
    rule = "C02-OPTABLES"
    chk.rule(rule, "opcode enum, instruction-type table, dispatch table, handler labels and assembler mnemonics agree")
    from rules.c10 import instruction_types
    from jv.witness import run_witnesses
    types, ops = instruction_types(prog)
    ops = [o for o in ops if o != "JOP_INSTRUCTION_COUNT"]
    count = prog.enums.get("JOP_INSTRUCTION_COUNT")
    if count is None or len(ops) < 70:
        raise AnalysisBroken("opcode enum not found")
    # instruction-type table covers every opcode
    for op in ops:
        chk.instance(rule)
        if op in types:
            chk.ok(rule, "%s has instruction type %s" % (op, types[op]))
        else:
            chk.violation(rule, "bytecode.c", "janet_instructions", op, prog.tus["bytecode.c"].file, "opcode %s has no entry in janet_instructions[]" % op)
    # dispatch table: op_lookup[i] == &&label_<op i>
    fn = prog.need_func("run_vm", "vm.c")
    look = [n for n in fn.nodes if n.k == "vardecl" and n.name == "op_lookup"]
    if not look or not look[0].kids:
        raise AnalysisBroken("op_lookup not found")
    elems = look[0].kids[0].kids
    labels = set(n.name for n in fn.nodes if n.k == "label")
    for i, op in enumerate(ops):
        chk.instance(rule)
        e = strip_casts(elems[i]) if i < len(elems) else None
        want = "label_" + op
        if e is not None and e.k == "addrlabel" and e.name == want and want in labels:
            chk.ok(rule, "op_lookup[%d] = &&%s" % (i, want))
        else:
            chk.violation(rule, "vm.c", "run_vm", "op_lookup:%s" % op, look[0].loc,
                          "op_lookup[%d] is %s, expected &&%s: opcode %s dispatches to the wrong handler" % (
                              i, e.text() if e is not None else "missing", want, op))
    chk.instance(rule)
    rest = [strip_casts(e) for e in elems[len(ops):]]
    if all(e.k == "addrlabel" and e.name == "label_unknown_op" for e in rest):
        chk.ok(rule, "%d remaining dispatch entries go to label_unknown_op" % len(rest))
    else:
        chk.violation(rule, "vm.c", "run_vm", "op_lookup:tail", look[0].loc, "a dispatch entry beyond the last opcode does not go to label_unknown_op")
    # assembler mnemonics: one per opcode, sorted
    asm = prog.tus["asm.c"].ginit("janet_ops")
    if asm is None:
        raise AnalysisBroken("janet_ops not found")
    names, seen = [], {}
    for row in asm.kids:
        if row.k == "init" and len(row.kids) >= 2 and row.kids[0].k == "str":
            nm = row.kids[0].d["s"]
            o = strip_casts(row.kids[1])
            names.append(nm)
            seen.setdefault(o.name if o.k == "ref" else str(o.v), []).append(nm)
    for op in ops:
        chk.instance(rule)
        if len(seen.get(op, [])) == 1:
            chk.ok(rule, "%s has mnemonic %s" % (op, seen[op][0]))
        else:
            chk.violation(rule, "asm.c", "janet_ops", op, prog.tus["asm.c"].file, "opcode %s has %d assembler mnemonics" % (op, len(seen.get(op, []))))
    chk.instance(rule)
    if names == sorted(names):
        chk.ok(rule, "mnemonic table sorted (it is binary-searched)")
    else:
        bad = [b for a, b in zip(names, names[1:]) if a > b]
        chk.violation(rule, "asm.c", "janet_ops", "sorted", prog.tus["asm.c"].file, "mnemonic table is binary-searched but not sorted at %s" % bad[:2])
    res = run_witnesses([("count<=128", "JOP_INSTRUCTION_COUNT <= 128")], includes=("janet.h",))
    chk.instance(rule)
    if res["count<=128"]:
        chk.ok(rule, "witness: JOP_INSTRUCTION_COUNT <= 128 (bit 7 is the breakpoint flag)")
    else:
        chk.violation(rule, "janet.h", "JanetOpCode", "count", "src/include/janet.h:0", "more than 128 opcodes: bit 7 of the opcode byte is the breakpoint flag")
    return types


def _emitform_rule(chk, prog, types):
    rule = "C02-EMITFORM"
    chk.rule(rule, "every janetc_emit_<form>(c, OP, ...) uses the form whose operand widths match OP's instruction type")
    n = 0
    for unit in ("compile.c", "specials.c", "cfuns.c", "emit.c"):
        for fn in prog.tus[unit].funcs.values():
            # one level of parameter binding: int op parameters of this function
            params = {p["n"]: i for i, p in enumerate(fn.params)}
            for c in fn.calls():
                if not (c.callee or "").startswith("janetc_emit_") or len(c.args) < 2:
                    continue
                form = c.callee[len("janetc_emit_"):]
                if form not in FORM_TYPES:
                    continue
                opn = strip_casts(c.args[1])
                cands = []
                if opn.k == "ref" and opn.d.get("d") == "enum":
                    cands = [opn.name]
                elif opn.k == "cond":
                    cands = [strip_casts(x).name for x in opn.kids[1:] if strip_casts(x).k == "ref" and strip_casts(x).d.get("d") == "enum"]
                elif opn.k == "ref" and opn.name in params:
                    # constants passed for that parameter at the call sites of fn (same unit)
                    idx = params[opn.name]
                    for g in prog.tus[unit].funcs.values():
                        for cc in g.calls(fn.name):
                            if idx < len(cc.args):
                                a = strip_casts(cc.args[idx])
                                if a.k == "ref" and a.d.get("d") == "enum":
                                    cands.append(a.name)
                for op in sorted(set(cands)):
                    if op not in types:
                        continue
                    n += 1
                    chk.instance(rule)
                    chk.analysed(fn)
                    if TYPE_LAYOUT.get(types[op]) == FORM_LAYOUT[form]:
                        chk.ok(rule, "%s: %s(%s) matches %s" % (fn.name, c.callee, op, types[op]))
                    else:
                        chk.violation(rule, unit, fn.name, "%s:%s" % (c.callee, op), c.loc,
                                      "%s is emitted with %s but its instruction type is %s: operands are encoded at the "
                                      "wrong widths once a slot number exceeds what the wrong form allows" % (op, c.callee, types[op]))
    if n < 60:
        raise AnalysisBroken("only %d emission sites with a known opcode" % n)


def _srcmap_rule(chk, prog):
    rule = "C02-SRCMAP"
    chk.rule(rule, "bytecode and source map are appended together; only janetc_emit appends to the instruction buffer")
    n = 0
    for fn in prog.all_funcs():
        if fn.tu.name not in ("emit.c", "compile.c", "specials.c", "cfuns.c"):
            continue
        pushes_b = [x for x in fn.nodes if x.k == "mem" and x.field == "buffer" and x.rec == "JanetCompiler" and x.in_macro("janet_v_push")]
        pushes_m = [x for x in fn.nodes if x.k == "mem" and x.field == "mapbuffer" and x.rec == "JanetCompiler" and x.in_macro("janet_v_push")]
        if pushes_b or pushes_m:
            n += 1
            chk.instance(rule)
            chk.analysed(fn)
            if fn.name != "janetc_emit":
                chk.violation(rule, fn.tu.name, fn.name, "append", (pushes_b or pushes_m)[0].loc,
                              "%s appends to the compiler's instruction/source-map buffers directly instead of going through janetc_emit" % fn.name)
            elif pushes_b and pushes_m:
                chk.ok(rule, "janetc_emit appends the instruction and its source mapping together")
            else:
                chk.violation(rule, fn.tu.name, fn.name, "pair", fn.loc, "janetc_emit no longer appends to both buffer and mapbuffer")
    if n < 1:
        raise AnalysisBroken("janetc_emit's buffer appends not found")
    # truncation / rollback: whoever resets the length of one buffer resets the other
    m = 0
    for fn in prog.all_funcs():
        if fn.tu.name not in ("emit.c", "compile.c", "specials.c", "cfuns.c"):
            continue
        def cuts(field):
            return [x for x in fn.nodes if x.k == "asg" and x.op == "=" and x.kids[0].in_macro("janet_v__cnt")
                    and any(y.k == "mem" and y.field == field and y.rec == "JanetCompiler" for y in x.kids[0].walk())]
        cb, cm = cuts("buffer"), cuts("mapbuffer")
        if cb or cm:
            m += 1
            chk.instance(rule)
            chk.analysed(fn)
            if cb and cm:
                chk.ok(rule, "%s rolls back instruction buffer and source map together" % fn.name)
            else:
                chk.violation(rule, fn.tu.name, fn.name, "truncate", (cb or cm)[0].loc,
                              "%s truncates %s but not %s: from here on every instruction of the function is attributed to the "
                              "source position of a different instruction" % (fn.name, "the instruction buffer" if cb else "the source map",
                                                                              "the source map" if cb else "the instruction buffer"))
    if m < 1:
        raise AnalysisBroken("no rollback of the instruction buffer found (janetc_throwaway)")


def _closureflag_rule(chk, prog):
    """The loop-to-function rewrite in janetc_while is triggered by JANET_SCOPE_CLOSURE on the loop's
    scope; janetc_popscope propagates the flag outwards through non-function scopes only.  So whoever
    emits a JOP_CLOSURE into the current function has to flag the scope it emits into - otherwise an
    enclosing loop keeps one shared frame for all iterations and closures capture the wrong variable."""
    rule = "C02-CLOSUREFLAG"
    chk.rule(rule, "every path that emits JOP_CLOSURE also sets JANET_SCOPE_CLOSURE on the enclosing scope before returning")
    n = 0

    def emits(x):
        return (x.k == "call" and x.callee and x.callee.startswith("janetc_emit")
                and any(r.k == "ref" and r.name == "JOP_CLOSURE" for a in x.args for r in a.walk()))

    def flags(x):
        return (x.k == "asg" and x.op == "|=" and x.kids[0].k == "mem" and x.kids[0].field == "flags"
                and x.kids[0].rec == "JanetScope" and "JANET_SCOPE_CLOSURE" in x.kids[1].macro_names())

    for fn in prog.all_funcs():
        if fn.tu.name not in ("specials.c", "compile.c", "cfuns.c"):
            continue
        sites = [x for x in fn.nodes if emits(x)]
        if not sites:
            continue
        n += 1
        chk.instance(rule)
        chk.analysed(fn)

        def transfer(st, x):
            if emits(x):
                return st | {"emit"}
            if flags(x):
                return st | {"flag"}
            return st
        IN, OUT, T = flow.forward_paths(fn, frozenset(), transfer)
        bad = None
        for b, kind in flow.exits(fn):
            if kind != "return" or b.id not in OUT:
                continue
            for ps in OUT[b.id]:
                if "emit" in ps and "flag" not in ps:
                    bad = b
        if bad is not None:
            last = bad.elems[-1] if bad.elems else sites[0]
            chk.violation(rule, fn.tu.name, fn.name, "JOP_CLOSURE", sites[0].loc,
                          "%s emits JOP_CLOSURE but can return (near %s) without setting JANET_SCOPE_CLOSURE on the scope it "
                          "emitted into: an enclosing while loop will not be rewritten into a function per iteration and "
                          "closures created here share one frame across iterations" % (fn.name, last.loc))
        else:
            chk.ok(rule, "%s: closure emission at %s always flags the scope" % (fn.name, sites[0].loc))
    chk.floor(rule, 2)


EMIT_API = ("janetc_emit_s", "janetc_emit_ss", "janetc_emit_sss", "janetc_emit_si", "janetc_emit_su",
            "janetc_emit_ssi", "janetc_emit_ssu")


def handler_first_operand_writes(prog):
    """Opcodes whose interpreter handler stores into its first operand slot (stack[A] / stack[D]) in the
    current frame, plus the opcodes at which a fiber can suspend with a resumable signal (run_vm stores the
    resume value into stack[A] of the suspended instruction when it is re-entered)."""
    vm = VMHandlers(prog)
    vfn = vm.fn
    dispatch = vfn.igoto
    out = {}

    def ptransfer(st, n):
        if n.k == "call" and n.callee == "janet_fiber_popframe":
            return frozenset(["popped"])
        return st
    for lab, e in vm.handler_entry_blocks().items():
        if not lab.startswith("label_JOP_"):
            continue
        op = lab[len("label_"):]
        I, O = flow.forward(vfn, frozenset(), ptransfer, lambda a, b: a | b,
                            edge=lambda st, blk, succ, c, t: None if succ == dispatch else st, start=e)
        w = None
        for b, st in I.items():
            for x in vfn.blocks[b].elems:
                if not st and x.k == "asg" and x.op == "=" and x.kids[0].k == "sub" and is_ref(strip_casts(x.kids[0].kids[0]), "stack"):
                    ms = [m.rstrip("@") for m in x.kids[0].kids[1].macro_names()]
                    if "A" in ms or "D" in ms:
                        w = w or ("stores stack[%s] at %s" % ("A" if "A" in ms else "D", x.loc))
                if x.k == "return" and x.kids and x.kids[0].v is None and not st:
                    w = w or ("suspends with a resumable signal at %s (resume value lands in stack[A])" % x.loc)
                st = ptransfer(st, x)
        out[op] = w
    if len(out) < 60:
        raise AnalysisBroken("run_vm: only %d handlers analysed for operand writes" % len(out))
    return out


def _wrflag_rule(chk, prog):
    """janetc_emit_<form>(c, OP, dest, ..., wr) stages operands in near registers; the staged first operand is
    copied back to `dest` only if wr != 0.  For a destination that is not a near register (more than ~240 live
    locals, an upvalue, a var) the flag must be set whenever OP writes its first operand: wr=0 on a writing
    opcode loses the result.  (wr=1 on a non-writing opcode merely moves back the value that was staged.)"""
    rule = "C02-WRFLAG"
    chk.rule(rule, "janetc_emit_<form> is asked to write the first operand back (wr=1) whenever run_vm's handler of the opcode writes it")
    writes = handler_first_operand_writes(prog)
    n = 0
    for fn in prog.all_funcs():
        if fn.tu.name not in ("specials.c", "cfuns.c", "compile.c", "emit.c"):
            continue
        for c in fn.nodes:
            if c.k != "call" or c.callee not in EMIT_API:
                continue
            opn = strip_casts(c.args[1])
            wr = c.args[-1].v
            if wr is None:
                continue
            ops = []
            if opn.k == "ref" and opn.name.startswith("JOP_"):
                ops = [opn.name]
            elif opn.k == "cond":
                ops = [strip_casts(k).name for k in opn.kids[1:] if strip_casts(k).k == "ref" and strip_casts(k).name.startswith("JOP_")]
            elif opn.k == "ref" and opn.d.get("d") in ("parm", "var"):
                # opcode handed in by the caller: take every constant any call site of this function passes
                idx = [i for i, p in enumerate(fn.params) if p["n"] == opn.name]
                if idx:
                    for g in prog.all_funcs():
                        for cc in g.nodes:
                            if cc.k == "call" and cc.callee == fn.name and len(cc.args) > idx[0]:
                                a = strip_casts(cc.args[idx[0]])
                                if a.k == "ref" and a.name.startswith("JOP_"):
                                    ops.append(a.name)
                else:
                    # local: constants assigned to it
                    for x in fn.nodes:
                        if x.k in ("asg", "vardecl"):
                            tgt = x.kids[0].name if x.k == "asg" and is_ref(x.kids[0]) else x.name if x.k == "vardecl" else None
                            if tgt == opn.name:
                                for r in x.walk():
                                    if r.k == "ref" and r.name.startswith("JOP_"):
                                        ops.append(r.name)
            if not ops:
                chk.note("C02-WRFLAG: opcode of %s at %s could not be resolved" % (c.callee, c.loc))
                continue
            chk.analysed(fn) if n == 0 else None
            for op in sorted(set(ops)):
                n += 1
                chk.instance(rule)
                if op not in writes:
                    raise AnalysisBroken("no interpreter handler found for %s" % op)
                w = writes[op]
                if bool(wr) == bool(w) and (w or not wr):
                    chk.ok(rule, "%s: %s wr=%d (%s)" % (fn.name, op, wr, w or "handler does not write its first operand"))
                elif w:
                    chk.violation(rule, fn.tu.name, fn.name, "%s:wr=0" % op, c.loc,
                                  "%s(c, %s, ...) is told not to write its first operand back (wr=0), but the handler %s: when the "
                                  "destination is not a near register (function with more than ~240 live slots) the result stays "
                                  "in a temporary and the program computes with a stale slot" % (c.callee, op, w))
                else:
                    # wr=1 on an opcode that leaves its first operand alone is only a redundant move: the staging
                    # register was loaded from the destination just before the instruction
                    chk.ok(rule, "%s: %s wr=1 on a non-writing opcode (redundant move back, harmless)" % (fn.name, op))
    chk.floor(rule, 60, n)


def _sloteq_rule(chk, prog):
    """janetc_copy skips the move when janetc_sequal says source and destination are the same slot, and the
    specials use it to decide whether a target can be reused.  Two slots are the same storage only if every
    identity field agrees: the register, the environment it lives in (a local and an upvalue can share a register
    number), the flag bits other than the type hint, and - for constants/references - the value."""
    rule = "C02-SLOTEQ"
    chk.rule(rule, "janetc_sequal compares every identity field of JanetSlot on both operands")
    fn = next((f for f in prog.all_funcs() if f.name == "janetc_sequal"), None)
    if fn is None:
        raise AnalysisBroken("janetc_sequal not found")
    chk.analysed(fn)
    rec = prog.records.get("JanetSlot")
    if not rec:
        raise AnalysisBroken("record JanetSlot not found")
    fields = [f["n"] for f in rec["fields"]]
    ps = [p["n"] for p in fn.params]
    for f in fields:
        chk.instance(rule)
        seen = set()
        for x in fn.nodes:
            if x.k == "mem" and x.field == f and is_ref(strip_casts(x.kids[0])) and strip_casts(x.kids[0]).name in ps:
                seen.add(strip_casts(x.kids[0]).name)
        if len(seen) == len(ps) == 2:
            chk.ok(rule, "janetc_sequal compares .%s of both slots" % f)
        else:
            chk.violation(rule, fn.tu.name, fn.name, f, fn.loc,
                          "janetc_sequal does not compare JanetSlot.%s of both operands (read from: %s): slots that differ only in "
                          "%s are treated as the same storage and the move between them is dropped" % (f, sorted(seen) or "none", f))
    chk.floor(rule, 4)


TYPE_FIELDS = {
    "JINT_0": set(), "JINT_S": {"D"}, "JINT_L": {"DS"}, "JINT_SS": {"A", "E"}, "JINT_SL": {"A", "ES"}, "JINT_ST": {"A", "E"},
    "JINT_SI": {"A", "ES"}, "JINT_SD": {"A", "E"}, "JINT_SU": {"A", "E"}, "JINT_SSS": {"A", "B", "C"},
    "JINT_SSI": {"A", "B", "CS"}, "JINT_SSU": {"A", "B", "C"}, "JINT_SES": {"A", "B", "C"}, "JINT_SC": {"A", "E"},
}


def _handlerfields_rule(chk, prog, types):
    """The instruction-type table (janet_instructions[]) says how an opcode's operands are laid out; the compiler's
    emitters, the verifier and the assembler all follow it.  The interpreter's handler must decode the same fields: a
    handler that reads the 8-bit A of a one-operand instruction whose operand is the 24-bit D works only while the
    operand is below 256 - with more locals it silently uses another slot.  The dead-move pass has its own copy of the
    layout (AA/BB/CC/DD/EE) and must agree as well."""
    rule = "C02-HANDLERFIELDS"
    chk.rule(rule, "each run_vm handler (and the dead-move pass) decodes exactly the operand fields of the opcode's instruction type")
    vm = VMHandlers(prog)
    vfn = vm.fn
    dispatch = vfn.igoto
    LETTERS = ("A", "B", "C", "D", "E", "CS", "DS", "ES")

    def ptransfer(st, n):
        if n.k == "call" and n.callee == "janet_fiber_popframe":
            return frozenset(["popped"])
        return st
    n = 0
    for lab, e in sorted(vm.handler_entry_blocks().items()):
        if not lab.startswith("label_JOP_"):
            continue
        op = lab[len("label_"):]
        t = types.get(op)
        if t is None or t not in TYPE_FIELDS:
            continue
        I, O = flow.forward(vfn, frozenset(), ptransfer, lambda a, b: a | b,
                            edge=lambda st, blk, succ, c, t_: None if succ == dispatch else st, start=e)
        used = {}
        for b, st in I.items():
            for x in vfn.blocks[b].elems:
                if not st:
                    for y in x.walk():
                        for m in y.macro_names():
                            m = m.rstrip("@")
                            if m in LETTERS:
                                used.setdefault(m, y)
                st = ptransfer(st, x)
        n += 1
        chk.instance(rule)
        # position only: C/CS, D/DS, E/ES name the same bits (signedness of immediates is C09-ASMOPS' and C15's business)
        extra = sorted(m for m in used if m[0] not in set(l[0] for l in TYPE_FIELDS[t]))
        if extra:
            y = used[extra[0]]
            chk.violation(rule, "vm.c", "run_vm", "%s:%s" % (op, ",".join(extra)), y.loc,
                          "the handler of %s decodes field %s, but its instruction type %s has the operand fields %s: for operands "
                          "that do not fit the narrower field (slots above 255) the interpreter uses a different slot than the one "
                          "the compiler encoded" % (op, ",".join(extra), t, sorted(TYPE_FIELDS[t]) or "none"))
        else:
            chk.ok(rule, "%s (%s): handler decodes %s" % (op, t, sorted(used)))
    # the dead-move pass
    mv = prog.need_func("janet_bytecode_movopt", "bytecode.c")
    sws = sorted([x for x in mv.nodes if x.k == "switch"], key=lambda x: x.ln)
    if sws:
        cm = case_map(sws[0])
        for x in sws[0].walk():
            if x.k == "call" and x.callee == "janetc_regalloc_touch" and x.id in cm:
                letter = None
                for m in x.args[1].macro_names():
                    if m in ("AA", "BB", "CC", "DD", "EE"):
                        letter = m[0]
                for lab2 in cm[x.id]:
                    t = types.get(lab2)
                    if not lab2.startswith("JOP_") or t not in TYPE_FIELDS or letter is None:
                        continue
                    n += 1
                    chk.instance(rule)
                    allowed = set(l[0] for l in TYPE_FIELDS[t])
                    if letter in allowed:
                        chk.ok(rule, "movopt: %s counts field %s as read" % (lab2, letter))
                    else:
                        chk.violation(rule, "bytecode.c", mv.name, "%s:%s%s" % (lab2, letter, letter), x.loc,
                                      "dead-move elimination counts field %s of %s as the slot it reads, but the instruction type %s "
                                      "has fields %s: for a far operand it marks the wrong register live and may delete the move that "
                                      "feeds the real one" % (letter, lab2, t, sorted(TYPE_FIELDS[t])))
    chk.floor(rule, 80, n)


def _negzero_rule(chk, prog):
    """The compiler replaces small whole numbers by 32-bit integers baked into instructions (LOAD_INTEGER, the
    *_IMMEDIATE forms).  The usual test "d == (int32_t) d" also holds for -0.0, whose integer image is +0: a program
    that mentions -0.0 (literally, or as a constant folded into a def) would compute 1/x = +inf where the language
    says -inf.  Every such shortcut must exclude the negative zero explicitly."""
    rule = "C02-NEGZERO"
    chk.rule(rule, "the integer shortcuts for number constants (LOAD_INTEGER, immediates) are taken only for values that are not -0.0")
    sites = []
    f1 = next((f for f in prog.all_funcs() if f.name == "janetc_loadconst"), None)
    f2 = next((f for f in prog.all_funcs() if f.name == "can_be_imm"), None)
    if f1 is None or f2 is None:
        raise AnalysisBroken("janetc_loadconst / can_be_imm not found")
    for x in f1.nodes:
        if x.k == "call" and x.callee == "janetc_emit" and any(is_ref(y, "JOP_LOAD_INTEGER") for y in x.walk()):
            sites.append((f1, x))
    for x in f2.nodes:
        if x.k == "return" and x.kids and x.kids[0].v == 1:
            sites.append((f2, x))
    if len(sites) < 2:
        raise AnalysisBroken("integer shortcut sites not found (%d)" % len(sites))
    for fn, site in sites:
        chk.instance(rule)
        chk.analysed(fn)
        IN, T = flow.condition_facts(fn)
        ok = None
        for x, S in flow.states_at(fn, IN, T):
            if x is not site:
                continue
            ok = bool(S)
            for ps in S:
                good = False
                for (op, l, r, toks, ln, rn) in ps:
                    if ln is not None and ("signbit" in ln.macro_names() or "signbit(" in l) and op == "==" and (rn is None or rn.v == 0):
                        good = True      # signbit(d) is false
                    if op == "!=" and rn is not None and rn.v == 0 and ln is not None and is_ref(ln) and "int" in (ln.t or ""):
                        good = True      # the integer image is not zero
                if not good:
                    ok = False
        if ok:
            chk.ok(rule, "%s: integer form only for a non-zero integer or a zero without sign bit" % fn.name)
        else:
            chk.violation(rule, fn.tu.name, fn.name, "negative-zero", site.loc,
                          "%s takes the integer shortcut on a path that has excluded neither a zero integer image nor the sign bit: "
                          "-0.0 is compiled as +0 and (/ 1 -0.0) yields inf instead of -inf" % fn.name)


def _destructfast_rule(chk, prog):
    """(def [a b] [x y]) whose value is dropped is compiled without building the two tuples: pattern position i is bound to
    the i-th element FORM of the right-hand side.  That is the same program only if every element form is compiled - a
    right-hand side longer than the pattern still has to run its extra elements for their effects - and only if form
    positions are value positions, which a (splice ...) element breaks.  The shortcut must be guarded by both."""
    rule = "C02-DESTRUCTFAST"
    chk.rule(rule, "the allocation-free destructuring shortcut is taken only when the right-hand side is no longer than the pattern and contains no splice")
    fn = next((f for f in prog.all_funcs() if f.name == "dohead_destructure"), None)
    if fn is None:
        raise AnalysisBroken("dohead_destructure not found")
    chk.analysed(fn)
    recs = [c for c in fn.calls("dohead_destructure")]
    if not recs:
        raise AnalysisBroken("dohead_destructure: per-element recursion of the shortcut not found")
    IN, T = flow.condition_facts(fn)
    flags = {}
    for x in fn.nodes:
        if x.k == "vardecl" and x.kids:
            e = strip_casts(x.kids[0])
            if e.k == "bin" and e.op in ("<=", ">=", "<", ">") and all(strip_casts(k).k == "mem" and strip_casts(k).field == "len" for k in e.kids):
                a, b = [strip_casts(k).text() for k in e.kids]
                rhs_le_lhs = (e.op == "<=" and "rhs" in a and "lhs" in b) or (e.op == ">=" and "lhs" in a and "rhs" in b)
                flags[x.name] = rhs_le_lhs
    cleared_on_splice = set()
    for x in fn.nodes:
        if x.k == "asg" and x.op == "=" and is_ref(x.kids[0]) and strip_casts(x.kids[1]).v == 0 and x.kids[0].name in flags:
            for a in x.ancestors():
                if a.k == "if" and any(y.k == "str" and y.d.get("s") == "splice" for y in a.kids[0].walk()):
                    cleared_on_splice.add(x.kids[0].name)
    for x, S in flow.states_at(fn, IN, T):
        if x not in recs:
            continue
        chk.instance(rule)
        guards = None
        for ps in S:
            g = set(l for (op, l, r, _, ln, rn) in ps if op == "!=" and rn is None and l in flags)
            guards = g if guards is None else guards & g
        good = [g for g in (guards or ()) if flags.get(g) and g in cleared_on_splice]
        if good:
            chk.ok(rule, "dohead_destructure: shortcut under `%s` (rhs no longer than the pattern, cleared for a splice element)" % good[0])
        else:
            chk.violation(rule, fn.tu.name, fn.name, "shortcut", x.loc,
                          "the per-position shortcut of dohead_destructure is not guarded by `rhs.len <= lhs.len` and a splice test: "
                          "surplus right-hand elements are never compiled (their side effects vanish when the def's value is unused) "
                          "and a splice element is compiled where it has no meaning")


_run_commit_only = run



PAIRLOOP_EXCEPTIONS = {
    ("compile.c", "janetc_maker"): "folds a struct / table literal whose slots were produced pairwise by janetc_toslotskv from a parsed "
                                   "literal: the slot vector always holds an even number of entries",
    ("parse.c", "close_struct"): "called only after `state->argn & 1` was rejected by the closing-delimiter handler (root, parse.c)",
    ("parse.c", "close_table"): "as close_struct",
}


def unguarded_pair_callers(prog, fn):
    """call sites of `fn` (same unit) that are not dominated by a test of the parity of a count (`x & 1`)"""
    out = []
    for g in fn.tu.funcs.values():
        calls = g.calls(fn.name)
        if not calls:
            continue
        IN, T = flow.condition_facts(g)
        for x, S in flow.states_at(g, IN, T):
            if x in calls:
                tested = bool(S) and all(any(ln is not None and strip_casts(ln).k == "bin" and strip_casts(ln).op == "&"
                                             and strip_casts(strip_casts(ln).kids[1]).v == 1 for (op, l, r, toks, ln, rn) in ps) for ps in S)
                if not tested:
                    out.append((x, g))
    return out


def _pairloop_rule(chk, prog):
    """A loop that walks key/value pairs reads a[i] and a[i + 1] and steps by two.  With `i < n` as its only bound it
    reads a[n] on the last round when n is odd - one element past what it was given.  (make_struct_n, which builds the
    struct for &keys parameters, did exactly that: in a tail call the cell behind the arguments holds a stale value, and
    the dangling key got it.)  The bound has to cover i + 1, or n has to be known even."""
    rule = "C02-PAIRLOOP"
    chk.rule(rule, "a loop that steps by two and reads element i + 1 is bounded so that i + 1 stays inside (or the count is known to be even)")
    n = 0
    for fn in prog.all_funcs():
        for lp in fn.nodes:
            if lp.k != "for" or lp.kids[1] is None or lp.kids[2] is None:
                continue
            inc = strip_casts(lp.kids[2])
            if not (inc.k == "asg" and inc.op == "+=" and is_ref(inc.kids[0]) and strip_casts(inc.kids[1]).v == 2):
                continue
            iv = inc.kids[0].name
            cond = strip_casts(lp.kids[1])
            if not (cond.k == "bin" and cond.op in ("<", "<=") and is_ref(strip_casts(cond.kids[0]), iv)):
                continue
            reads = [x for x in lp.kids[3].walk() if x.k == "sub" and strip_casts(x.kids[1]).k == "bin" and strip_casts(x.kids[1]).op == "+"
                     and is_ref(strip_casts(strip_casts(x.kids[1]).kids[0]), iv) and strip_casts(strip_casts(x.kids[1]).kids[1]).v == 1]
            if not reads:
                continue
            n += 1
            chk.instance(rule)
            chk.analysed(fn)
            bound = strip_casts(cond.kids[1])
            btxt = bound.text().replace(" ", "")
            ok = None
            # the bound itself is made even, or is a constant
            if bound.v is not None or (bound.k == "bin" and bound.op == "&") or (bound.k == "bin" and bound.op == "-" and strip_casts(bound.kids[1]).v == 1 and cond.op == "<"):
                ok = "the bound is constant / masked even / n - 1"
            if ok is None:
                # a dominating test of the parity of the count: `if (n & 1) <leave>` (or !(n & 1) for loops starting at 1)
                IN, T = flow.condition_facts(fn)
                for x, S in flow.states_at(fn, IN, T):
                    if x is not lp.kids[1]:
                        continue
                    if S and all(any((ln is not None and strip_casts(ln).k == "bin" and strip_casts(ln).op == "&" and strip_casts(strip_casts(ln).kids[1]).v == 1
                                      and any(y.text().replace(" ", "") in btxt or btxt in y.text().replace(" ", "") for y in strip_casts(ln).kids[0].walk() if y.k in ("ref", "mem", "bin")))
                                     for (op, l, r, toks, ln, rn) in ps) for ps in S):
                        ok = "the parity of the count was tested before the loop"
                    break
            key = (fn.tu.name, fn.name)
            if ok:
                chk.ok(rule, "%s: pair loop over `%s`: %s" % (fn.name, btxt[:30], ok))
            elif key in PAIRLOOP_EXCEPTIONS and (key[0] != "parse.c" or not unguarded_pair_callers(prog, fn)):
                chk.exception(rule, "%s:%s" % key, PAIRLOOP_EXCEPTIONS[key])
                chk.ok(rule, "%s: pair loop over `%s` (exception)" % (fn.name, btxt[:30]))
            elif key in PAIRLOOP_EXCEPTIONS:
                c, caller = unguarded_pair_callers(prog, fn)[0]
                chk.violation(rule, fn.tu.name, fn.name, "pairs:%s" % btxt[:30], c.loc,
                              "%s walks its arguments in pairs (reads `%s`) and relies on its caller to have refused an odd count; the call at "
                              "%s in %s is not preceded by such a test, so an odd-length literal reads one slot past the live arguments" % (
                                  fn.name, reads[0].text()[:30], c.loc, caller.name))
            else:
                chk.violation(rule, fn.tu.name, fn.name, "pairs:%s" % btxt[:30], lp.kids[1].loc,
                              "the loop steps `%s` by two under `%s` and reads `%s`: for an odd count the last round reads one element past "
                              "the end of what it was given" % (iv, cond.text()[:30], reads[0].text()[:40]))
    chk.floor(rule, 8, n)

def run(chk):   # noqa
    prog = Program.load("default")
    S = Summaries(prog)
    _commit_rule(chk, prog, S)
    types = _optables_rule(chk, prog)
    _emitform_rule(chk, prog, types)
    _srcmap_rule(chk, prog)
    _mapform_rule(chk, prog)
    _dropshort_rule(chk, prog)
    _paramregs_rule(chk, prog)
    _closureflag_rule(chk, prog)
    _wrflag_rule(chk, prog)
    _sloteq_rule(chk, prog)
    _handlerfields_rule(chk, prog, types)
    _negzero_rule(chk, prog)
    _destructfast_rule(chk, prog)
    from rules import c02_fields
    c02_fields.run(chk, prog)
    _pairloop_rule(chk, Program.load("default"))
    _nilfold_rule(chk, prog)
    _pusharity_rule(chk, prog)
    _splicefold_rule(chk, prog)
    from rules import c02_boot
    c02_boot.run(chk)


def _splicefold_rule(chk, prog):
    """A spliced element `;x` of a literal stands for the elements of x, however many there are - even when x is a
    constant.  Compile-time folding of an all-constant literal takes each slot's constant as ONE element, so every
    branch of compile.c that folds (reads slots[i].constant into the value it builds) must be conditioned on a flag
    that the scan over the slots clears/sets when it meets JANET_SLOT_SPLICED."""
    rule = "C02-SPLICEFOLD"
    chk.rule(rule, "every branch of compile.c that folds slot constants into a literal is conditioned on a flag the slot scan derives from JANET_SLOT_SPLICED")
    tu = prog.tus["compile.c"]
    n = 0
    for fn in sorted(tu.funcs.values(), key=lambda f: f.name):
        slotvecs = set(p_["n"] for p_ in fn.params if "JanetSlot *" in p_.get("t", ""))
        if not slotvecs:
            continue

        def folds(body):
            for y in body.walk():
                if y.k == "mem" and y.field == "constant" and y.kids and strip_casts(y.kids[0]).k == "sub" \
                        and is_ref(strip_casts(strip_casts(y.kids[0]).kids[0])) and strip_casts(strip_casts(y.kids[0]).kids[0]).name in slotvecs:
                    return True
            return False
        branches = [x for x in fn.nodes if x.k == "if" and len(x.kids) >= 2 and x.kids[1] is not None and folds(x.kids[1])]
        if not branches:
            continue
        spliceflags = set()
        for x in fn.nodes:
            if x.k == "if" and any(y.in_macro("JANET_SLOT_SPLICED") for y in x.kids[0].walk()) and x.kids[1] is not None:
                for y in x.kids[1].walk():
                    if y.k == "asg" and y.op == "=" and is_ref(y.kids[0]):
                        spliceflags.add(y.kids[0].name)
        chk.analysed(fn)
        for b in branches:
            # only the outermost folding branch of a chain carries the clause for its own body
            n += 1
            chk.instance(rule)
            names = set(y.name for y in b.kids[0].walk() if y.k == "ref")
            direct = any(y.in_macro("JANET_SLOT_SPLICED") for y in b.kids[0].walk())
            if direct or (names & spliceflags):
                chk.ok(rule, "%s: folding branch `%s` depends on %s" % (fn.name, b.kids[0].text(), ", ".join(sorted(names & spliceflags)) or "the flag itself"))
            else:
                chk.violation(rule, "compile.c", fn.name, "fold:%s" % b.kids[0].text().replace(" ", ""), b.loc,
                              "the branch `if (%s)` of %s folds slots[i].constant into a literal, but nothing in its condition is derived from "
                              "JANET_SLOT_SPLICED (flags set under a splice test: %s): a literal whose elements are all constant and one of "
                              "them spliced, e.g. {;[:a 1]}, is folded with the spliced tuple as a single element" % (
                                  b.kids[0].text(), fn.name, ", ".join(sorted(spliceflags)) or "none"))
    chk.floor(rule, 2, n)


def _mapform_rule(chk, prog):
    """An error is attributed to the form that raised it because (1) macroexpand1 moves the compiler's source cursor
    to every non-empty tuple form it is shown - before any of its early exits - and (2) janetc_value saves the
    cursor on entry and puts it back after the last instruction of the form has been emitted."""
    rule = "C02-MAPFORM"
    chk.rule(rule, "macroexpand1 considers the form's source position on every path that has established a non-empty tuple; "
                   "janetc_value restores the saved cursor on every normal exit and emits nothing afterwards")
    fn = prog.need_func("macroexpand1", "compile.c")
    chk.analysed(fn)

    def head_field(x, field):
        return x.k == "mem" and x.field == field and x.rec == "JanetTupleHead"

    def reads_sm(x):
        return any(head_field(y, "sm_line") for y in x.walk())
    writes = [x for x in fn.nodes if x.k == "asg" and x.kids[0].k == "mem" and x.kids[0].field == "line"
              and "current_mapping" in x.kids[0].text() and reads_sm(x.kids[1])]
    if not writes:
        raise AnalysisBroken("macroexpand1 no longer copies the form's sm_line into c->current_mapping")

    def transfer(st, x):
        if reads_sm(x):
            return st | {"M"}
        return st

    def edge(st, blk, succ, cond, truth):
        if cond is None:
            return st
        c, t = flow.strip_not(cond, truth)
        if c.k == "bin" and c.op in ("==", "!=") and any(head_field(y, "length") for y in c.kids[0].walk()) \
                and c.kids[1].text().strip() == "0":
            if (c.op == "==") != t:
                return st | {"L"}
        return st
    IN, OUT, T = flow.forward_paths(fn, frozenset(), transfer, edge)
    nz = False
    bad = None
    for b, kind in flow.exits(fn):
        if kind != "return" or b.id not in OUT:
            continue
        for ps in OUT[b.id]:
            if "L" in ps:
                nz = True
                if "M" not in ps:
                    bad = b
    if not nz:
        raise AnalysisBroken("macroexpand1: the non-empty-tuple test was not recognised")
    chk.instance(rule)
    if bad is not None:
        last = bad.elems[-1] if bad.elems else fn
        chk.violation(rule, "compile.c", fn.name, "cursor", last.loc,
                      "macroexpand1 can return (near %s) for a non-empty tuple form without having looked at the form's source "
                      "position (the copy at %s is not on this path): the instructions compiled for that form - a call whose head "
                      "is not a symbol, a bracket tuple - are recorded under the position of the enclosing form, and an error they "
                      "raise is attributed to the wrong line and column" % (last.loc, writes[0].loc))
    else:
        chk.ok(rule, "macroexpand1: every return for a non-empty tuple passes the source-position copy at %s" % writes[0].loc)
    # (2) janetc_value
    fv = prog.need_func("janetc_value", "compile.c")
    chk.analysed(fv)
    saves = [x for x in fv.nodes if x.k == "decl" and "current_mapping" in x.text()]
    local = None
    for d in saves:
        for y in d.walk():
            if y.k == "vardecl":
                local = y.name
    if not local:
        raise AnalysisBroken("janetc_value no longer saves c->current_mapping in a local")

    def is_restore(x):
        return (x.k == "asg" and x.op == "=" and x.kids[0].k == "mem" and x.kids[0].field == "current_mapping"
                and is_ref(strip_casts(x.kids[1]), local))

    def vtransfer(st, x):
        if is_restore(x):
            return (st | {"R"}) - {"after"}
        if x.k == "call":
            if x.callee == "macroexpand1":
                st = st | {"X"}
            if x.callee == "janetc_cerror":
                st = st | {"E"}
            if "R" in st:
                st = st | {"after:" + str(x.callee)}
        return st

    def vedge(st, blk, succ, cond, truth):
        if cond is None:
            return st
        c, t = flow.strip_not(cond, truth)
        if c.k == "bin" and c.op in ("==", "!=") and "JANET_COMPILE_ERROR" in c.text():
            if (c.op == "==") == t:
                return st | {"E"}
        return st
    IN, OUT, T = flow.forward_paths(fv, frozenset(), vtransfer, vedge)
    chk.instance(rule)
    bad = None
    normal = 0
    for b, kind in flow.exits(fv):
        if kind != "return" or b.id not in OUT:
            continue
        for ps in OUT[b.id]:
            if "X" in ps and "E" not in ps:
                normal += 1
                late = [a for a in ps if a.startswith("after:")]
                if "R" not in ps:
                    bad = (b, "without putting the saved source cursor back: the rest of the enclosing form is compiled under "
                              "this form's position")
                elif late:
                    bad = (b, "after calling %s once the cursor was put back: what that call emits is attributed to the enclosing form"
                           % ", ".join(sorted(a[6:] for a in late)))
    if not normal:
        raise AnalysisBroken("janetc_value: no normal exit after macroexpand1 recognised")
    if bad:
        last = bad[0].elems[-1] if bad[0].elems else fv
        chk.violation(rule, "compile.c", fv.name, "restore", last.loc, "janetc_value can return (near %s) %s" % (last.loc, bad[1]))
    else:
        chk.ok(rule, "janetc_value: saved cursor `%s` restored on every normal exit, nothing emitted afterwards" % local)
    chk.floor(rule, 2)


def _nilfold_rule(chk, prog, rule="C02-NILFOLD"):
    """`if` and `while` recognise (= nil X) / (not= nil X), compile X alone and branch on it with jump-if-nil /
    jump-if-not-nil.  When X is a constant the branch is chosen at compile time; for the nil forms the choice depends
    on `X is nil`, and only for the plain form on X's truthiness.  Folding a nil form through janet_truthy treats the
    constant false like nil, so the same source gives different results depending on whether X is a constant."""
    chk.rule(rule, "where a special form has replaced its condition by the operand of (= nil X) / (not= nil X), the constant's truthiness decides the branch only on paths that exclude both nil forms")
    n = 0
    for fn in prog.tus["specials.c"].funcs.values():
        recog = fn.calls("janetc_check_nil_form")
        if not recog:
            continue
        # what each recognition assigns: the branch taken when janetc_check_nil_form(...) succeeded
        bodies = []
        for x in fn.nodes:
            if x.k == "if" and any(c in recog for c in x.kids[0].walk() if c.k == "call"):
                asg = {}
                for y in x.kids[1].walk():
                    if y.k == "asg" and y.op == "=" and y.kids[0].k == "ref":
                        asg[y.kids[0].name] = strip_casts(y.kids[1])
                bodies.append((x, asg))
        if len(bodies) != len(recog):
            raise AnalysisBroken("%s: janetc_check_nil_form is not the condition of an if statement at every site" % fn.name)
        folds = [c for c in fn.calls("janet_truthy") if any(y.k == "mem" and y.field == "constant" and y.rec == "JanetSlot" for y in c.args[0].walk())]
        # with nan-boxing janet_truthy is a macro: take the outermost node of each expansion
        for x in fn.nodes:
            if "janet_truthy" in x.macro_names() and (x.parent is None or "janet_truthy" not in x.parent.macro_names()) and \
                    any(y.k == "mem" and y.field == "constant" and y.rec == "JanetSlot" for y in x.walk()):
                folds.append(x)
        if not folds:
            continue
        chk.analysed(fn)

        def excludes(ps, asg):
            for (op, l, r, toks, ln, rn) in ps:
                if ln is None or ln.k != "ref" or ln.name not in asg:
                    continue
                a = asg[ln.name]
                if op == "==" and rn is not None and rn.k in ("ref", "int") and a.k in ("ref", "int") and rn.text() != a.text():
                    return True
                if op == "==" and (rn is None or (rn.k == "int" and rn.v == 0)) and a.k == "int" and a.v not in (0, None):
                    return True
                if op == "!=" and rn is not None and rn.text() == a.text():
                    return True
            return False
        IN, T = flow.condition_facts(fn)
        res, size = {}, {}
        for x, S in flow.states_at(fn, IN, T):
            for c in folds:
                # the CFG lists a conditional expression's arms and then the whole expression: judge the innermost element
                if x is c or any(y is c for y in x.walk()) or any(y is x for y in c.walk()):
                    sz = sum(1 for _ in x.walk()) if not any(y is x for y in c.walk()) else 0
                    ok = bool(S) and all(all(excludes(ps, asg) for (_, asg) in bodies) for ps in S)
                    if id(c) not in size or sz < size[id(c)]:
                        size[id(c)], res[id(c)] = sz, ok
                    elif sz == size[id(c)]:
                        res[id(c)] = res[id(c)] and ok
        for c in folds:
            n += 1
            chk.instance(rule)
            if res.get(id(c)):
                chk.ok(rule, "%s: truthiness fold at %s only where neither nil form was recognised" % (fn.name, c.loc))
            else:
                chk.violation(rule, "specials.c", fn.name, "truthy-fold", c.loc,
                              "the truthiness of the constant condition decides a compile-time branch on a path on which the condition may have "
                              "been replaced by the operand of (= nil X) / (not= nil X): for the constant false the folded branch differs "
                              "from what the emitted jump-if-nil / jump-if-not-nil does for the same value in a register")
    chk.floor(rule, 2, n)


def _pusharity_rule(chk, prog):
    """janetc_pushslots emits the argument pushes of a call and at the same time counts how many arguments the call has
    at least (`min_arity`), which janetc_call uses to refuse calls of constant functions at compile time.  Each branch
    pushes one, two or three plain slots (and possibly a spliced one, which may be empty): the count has to grow by the
    number of plain slots, or valid calls with an empty splice are rejected / invalid ones accepted."""
    rule = "C02-PUSHARITY"
    chk.rule(rule, "in janetc_pushslots every branch adds to the minimum argument count exactly the number of plain slots it pushes")
    fn = prog.need_func("janetc_pushslots", "compile.c")
    chk.analysed(fn)
    PLAIN = {"JOP_PUSH": 1, "JOP_PUSH_2": 2, "JOP_PUSH_3": 3, "JOP_PUSH_ARRAY": 0}
    n = 0
    for x in fn.nodes:
        inc1 = x.k == "un" and x.op in ("post++", "pre++") and is_ref(x.kids[0], "min_arity")
        if not inc1 and not (x.k == "asg" and x.op == "+=" and is_ref(x.kids[0], "min_arity") and strip_casts(x.kids[1]).k == "int"):
            continue
        blk = x.parent
        while blk is not None and blk.k != "compound":
            blk = blk.parent
        if blk is None:
            continue
        pushed = 0
        for c in blk.kids:
            for y in c.walk():
                if y.k == "call" and (y.callee or "").startswith("janetc_emit"):
                    for a in y.args:
                        a = strip_casts(a)
                        if a.k == "ref" and a.name in PLAIN:
                            pushed += PLAIN[a.name]
        n += 1
        chk.instance(rule)
        k = 1 if inc1 else strip_casts(x.kids[1]).v
        if k == pushed:
            chk.ok(rule, "janetc_pushslots: a branch pushing %d plain slot(s) adds %d" % (pushed, k))
        else:
            chk.violation(rule, "compile.c", "janetc_pushslots", "branch@%s" % x.loc.split(":")[-1], x.loc,
                          "this branch pushes %d plain slot(s) but adds %d to the call's minimum argument count: (f a b ;rest) with an "
                          "empty `rest` is then refused at compile time (or a call with too few arguments accepted) for a constant f" % (pushed, k))
    if n == 0:
        # the function no longer counts with `min_arity += k` next to its pushes: nothing of this shape to compare
        chk.note("C02-PUSHARITY: janetc_pushslots has no per-branch `min_arity` increments any more; not decidable in this form")
        chk.floor(rule, 0, 0)
    else:
        chk.floor(rule, 4, n)


def _dropshort_rule(chk, prog):
    """def and var evaluate to their right-hand side.  For (def [a b] [x y]) the compiler has a short cut that pairs
    pattern and value positions and never builds the right-hand tuple - so afterwards there is no value to hand back.
    That is only acceptable when nobody wants it: the short cut is taken under JANET_FOPTS_DROP and not otherwise
    (tail position, last form of a do, an argument)."""
    rule = "C02-DROPSHORT"
    chk.rule(rule, "dohead_destructure takes its pairwise short cut (which never materialises the right-hand value) only when the form's value is dropped")
    from jv.flow import _atoms
    fn = prog.need_func("dohead_destructure", "specials.c")
    chk.analysed(fn)
    drops = set(x.name for x in fn.nodes if x.k == "vardecl" and x.kids and any("JANET_FOPTS_DROP" in y.macro_names() or (y.k == "ref" and y.name == "JANET_FOPTS_DROP") for y in x.kids[0].walk()))
    shorts = [x for x in fn.nodes if x.k == "if" and any(c.k == "call" and c.callee == "dohead_destructure" for c in x.kids[1].walk())
              and not any(q.k == "if" and q is not x and any(z is x for z in q.kids[1].walk()) and
                          any(c.k == "call" and c.callee == "dohead_destructure" for c in q.kids[1].walk()) for q in fn.nodes)]
    if not shorts:
        raise AnalysisBroken("dohead_destructure: the pairwise short cut (recursive call under an if) was not found")
    chk.instance(rule)
    x = shorts[0]

    def mentions_drop(a):
        return any((y.k == "ref" and (y.name in drops or y.name == "JANET_FOPTS_DROP")) or "JANET_FOPTS_DROP" in y.macro_names() for y in a.walk())
    loose = [alt for alt in _atoms(x.kids[0], True) if not any(mentions_drop(a) and t for (a, t) in alt)]
    if loose:
        chk.violation(rule, "specials.c", fn.name, "shortcut", x.loc,
                      "the pairwise short cut of dohead_destructure is taken under `%s`, which does not require JANET_FOPTS_DROP: (def [a b] [1 2]) in "
                      "a position where its value is used (tail position, an argument, the REPL) evaluates to the last right-hand element "
                      "instead of the tuple" % x.kids[0].text()[:70])
    else:
        chk.ok(rule, "dohead_destructure: short cut only under `%s`" % x.kids[0].text()[:50])
    chk.floor(rule, 1)


def _paramregs_rule(chk, prog):
    """Arguments of a call are stored in consecutive stack slots 0 .. n-1.  Parameters are named registers handed out by
    the register allocator, and the allocator steps over the reserved registers 240-255 (pushchunk marks them as taken).
    Up to 240 parameters the k-th parameter gets register k; beyond that it gets k + 16 while its argument still sits in
    slot k.  janetc_fn therefore has to refuse a parameter list whose registers reach the reserved window."""
    rule = "C02-PARAMREGS"
    chk.rule(rule, "janetc_fn refuses a parameter list whose registers reach the reserved window (a test of the allocator's high-water mark against 0xF0 that leads to the error exit)")
    ra = prog.need_func("pushchunk", "regalloc.c")
    reserved = any((y.v or 0) == 0xFFFF0000 for y in ra.nodes)
    fn = prog.need_func("janetc_fn", "specials.c")
    chk.analysed(fn)
    chk.instance(rule)
    if not reserved:
        chk.ok(rule, "the register allocator no longer reserves a window (premise gone)")
        chk.note("%s: pushchunk no longer marks registers 240-255 as taken; nothing to decide" % rule)
        chk.floor(rule, 1)
        return
    guards = [x for x in fn.nodes if x.k == "if" and any(
        y.k == "bin" and y.op in (">=", ">") and any(z.k == "mem" and z.field == "max" and z.rec == "JanetcRegisterAllocator" for z in y.kids[0].walk())
        and strip_casts(y.kids[1]).v is not None and strip_casts(y.kids[1]).v + (1 if y.op == ">" else 0) <= 0xF0 for y in x.kids[0].walk())
        and any(g.k == "goto" or (g.k == "call" and g.callee in ("janetc_cerror", "janetc_error")) for g in x.kids[1].walk())]
    if guards:
        chk.ok(rule, "janetc_fn: `%s` leads to the error exit" % guards[0].kids[0].text()[:40])
    else:
        chk.violation(rule, "specials.c", "janetc_fn", "reserved-window", fn.loc,
                      "janetc_fn accepts any number of parameters although their registers skip 240-255 and their arguments do not: "
                      "(fn [a0 ... a299] a240) called with (range 300) returns 256")
    chk.floor(rule, 1)
