"""C02 - compiled bytecode means what the source means: structural clauses.

C02-COMMIT    run_vm: every call that may raise is dominated, in its handler, by a commit of pc to the frame
C02-OPTABLES  opcode enum, instruction-type table, dispatch table, handler labels, assembler mnemonics agree
C02-EMITFORM  every janetc_emit_<form>(c, OP, ...) uses the form matching OP's operand layout
C02-SRCMAP    bytecode and source map are appended / moved together
"""
from jv import flow
from jv.facts import Program, AnalysisBroken
from jv.summaries import Summaries
from jv.vm import VMHandlers
from jv.util import is_ref, is_mem, strip_casts

EXPLANATION = (
    "Static rules: (COMMIT) must-dataflow over run_vm's CFG per opcode handler with an interprocedural "
    "may-panic summary - a raise is attributed to the committed pc, so every may-panic call must be "
    "dominated by vm_commit with no pc change in between; (OPTABLES/EMITFORM) cross-checks of the opcode "
    "enum, janet_instructions[], op_lookup[], handler labels, assembler table and the emitter form used at "
    "every emission site; (SRCMAP) bytecode and sourcemap stores are paired.  Necessary structural "
    "conditions for correct compilation and error attribution; program equivalence is not decided.")
ASSUMPTIONS = ["default Linux configuration with computed gotos", "semantic correctness of scoping/closures/jumps is not decided"]


def _commit_rule(chk, prog, S):
    rule = "C02-COMMIT"
    chk.rule(rule, "run_vm: may-panic calls are dominated by vm_commit() (frame pc = pc) within the handler")
    vm = VMHandlers(prog)
    fn = vm.fn
    chk.analysed(fn)
    dispatch = fn.igoto

    def is_commit(n):
        return n.k == "asg" and n.op == "=" and is_mem(n.kids[0], "pc", "JanetStackFrame") and is_ref(strip_casts(n.kids[1]), "pc")

    def writes_pc(n):
        if n.k == "asg" and is_ref(n.kids[0], "pc"):
            return True
        if n.k == "un" and n.op in ("pre++", "post++", "pre--", "post--") and is_ref(n.kids[0], "pc"):
            return True
        return False

    panic_calls = [n for n in fn.nodes if n.k == "call" and S.call_in(fn, n, S.may_panic)]
    pids = set(n.id for n in panic_calls)
    chk.instance(rule, len(panic_calls))
    C = frozenset(["c"])
    U = frozenset()

    def transfer(st, n):
        if is_commit(n):
            return C
        if writes_pc(n):
            return U
        return st

    def edge(st, blk, succ, cond, truth):
        if succ == dispatch:
            return None
        return st

    merged = {}
    for e in [fn.entry] + list(vm.handler_entry_blocks().values()):
        I, O = flow.forward(fn, U, transfer, lambda a, b: a & b, edge=edge, start=e)
        for b, st in I.items():
            merged[b] = (merged[b] & st) if b in merged else st
    for b, st in merged.items():
        for n in fn.blocks[b].elems:
            if n.id in pids:
                h = (vm.handler_of(n) or "?").replace("label_", "")
                if "c" in st:
                    chk.ok(rule, "%s: %s" % (h, n.text()[:50]))
                else:
                    chk.violation(rule, fn.tu.name, fn.name, "%s:%s" % (h, n.callee or "cfun-pointer"), n.loc,
                                  "%s may raise, but the frame's pc was not committed on every path to it in this "
                                  "handler: the error would be attributed to the previously committed instruction" % n.text()[:60])
            st = transfer(st, n)
    chk.floor(rule, 60)


def run(chk):
    prog = Program.load("default")
    S = Summaries(prog)
    _commit_rule(chk, prog, S)
