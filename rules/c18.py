"""C18 - sandboxed capabilities stay disabled for every function and thread.

C18-GUARD     interprocedural must-pass-through: on every call-graph x CFG path from a function Janet code can
              call to a capability-acquiring libc call, janet_sandbox_assert(F) with F covering the call's class
C18-MONOTONE  janet_vm.sandbox_flags only grows (|=) except at init and at thread start from the parent's flags
C18-TABLE     every JANET_SANDBOX_* bit has a keyword in (sandbox ...) and at least one guarded sink
"""
from jv import flow
from jv.facts import Program, AnalysisBroken
from jv.callgraph import CallGraph
from jv.util import is_ref, is_mem, strip_casts

EXPLANATION = (
    "Interprocedural must-dataflow over the whole parsed program: the set of capability bits asserted by "
    "janet_sandbox_assert(constant) is propagated along every CFG path of every function reachable from a "
    "function Janet code can invoke (registered C functions, method-table entries, abstract-type hooks), "
    "callee entry state = intersection over its call sites (function arguments carry the state of the site that "
    "passes them, so worker-thread subroutines inherit it); at every call to a capability-acquiring libc function "
    "the bit of its class must be in the state.  Plus who-may-write of the flag word and table agreement.  "
    "Decides that a guard dominates every acquisition; it does not decide the choice among file-system classes "
    "when that depends on a run-time mode string.")
ASSUMPTIONS = [
    "sink policy: a capability gates acquiring access; operations on handles acquired earlier (read/write/close/waitpid/kill/accept) are not sinks",
    "default Linux configuration; Windows branches are outside the claim",
]

B = {"SANDBOX": 1, "SUBPROCESS": 2, "NET_CONNECT": 4, "NET_LISTEN": 8, "FFI_DEFINE": 16, "FS_WRITE": 32,
     "FS_READ": 64, "HRTIME": 128, "ENV": 256, "DYNAMIC_MODULES": 512, "FS_TEMP": 1024, "FFI_USE": 2048,
     "FFI_JIT": 4096, "SIGNAL": 8192}
FS_ANY = B["FS_WRITE"] | B["FS_READ"] | B["FS_TEMP"]
# Linux fcntl.h: O_WRONLY 01, O_RDWR 02, O_CREAT 0100, O_TRUNC 01000.  O_APPEND alone cannot modify a file
# (it needs O_WRONLY/O_RDWR as well), so it is not write intent.
WRITE_INTENT_BITS = 0o1 | 0o2 | 0o100 | 0o1000
NET_ANY = B["NET_CONNECT"] | B["NET_LISTEN"]
FFI_ANY = B["FFI_DEFINE"] | B["FFI_USE"] | B["FFI_JIT"]

# libc function -> (mask of acceptable capability bits, class name).  Any one bit of the mask asserted discharges.
SINKS = {}
for n in ("remove", "unlink", "rename", "mkdir", "rmdir", "link", "symlink", "chmod", "utime", "utimes",
          "truncate", "ftruncate", "mkfifo", "chown", "lchown", "linkat", "unlinkat", "renameat", "mkdirat"):
    SINKS[n] = (B["FS_WRITE"], "FS_WRITE")
for n in ("opendir", "stat", "lstat", "readlink", "realpath", "access", "chdir", "scandir", "inotify_init",
          "inotify_init1", "inotify_add_watch", "statvfs", "nftw", "ftw"):
    SINKS[n] = (B["FS_READ"], "FS_READ")
for n in ("open", "fopen", "freopen", "openat", "creat", "open64", "fopen64"):
    SINKS[n] = (FS_ANY, "FS_*")
for n in ("tmpfile", "mkstemp", "mkdtemp", "tmpnam", "mktemp"):
    SINKS[n] = (B["FS_TEMP"], "FS_TEMP")
for n in ("connect",):
    SINKS[n] = (B["NET_CONNECT"], "NET_CONNECT")
for n in ("listen",):
    SINKS[n] = (B["NET_LISTEN"], "NET_LISTEN")
for n in ("socket", "bind", "socketpair"):
    SINKS[n] = (NET_ANY, "NET_*")
for n in ("fork", "vfork", "execv", "execvp", "execve", "execl", "execlp", "execvpe", "posix_spawn", "posix_spawnp",
          "system", "popen"):
    SINKS[n] = (B["SUBPROCESS"], "SUBPROCESS")
for n in ("getenv", "setenv", "unsetenv", "putenv", "clearenv", "secure_getenv"):
    SINKS[n] = (B["ENV"], "ENV")
for n in ("dlopen", "dlsym", "dlmopen"):
    SINKS[n] = (B["DYNAMIC_MODULES"] | FFI_ANY, "DYNAMIC_MODULES|FFI")
for n in ("sigaction", "signal"):
    SINKS[n] = (B["SIGNAL"], "SIGNAL")
for n in ("clock_gettime", "gettimeofday", "clock_getres"):
    SINKS[n] = (B["HRTIME"], "HRTIME")
for n in ("mmap", "mprotect"):
    SINKS[n] = (B["FFI_JIT"], "FFI_JIT")
GVAR_SINKS = {"environ": (B["ENV"], "ENV")}
# in-tree primitives that read / write raw memory on behalf of Janet code: :string and :ptr fields are followed as C pointers
INTERNAL_SINKS = {"janet_ffi_read_one": (B["FFI_USE"], "FFI_USE"), "janet_ffi_write_one": (B["FFI_USE"], "FFI_USE")}

BENIGN = ("getcwd isatty time setlocale umask getpid read write close recv send recvfrom sendto accept accept4 "
          "waitpid kill shutdown getsockname getpeername setsockopt getsockopt fcntl dup dup2 pipe fileno fdopen fclose "
          "fread fwrite fflush fseek ftell fgetc feof ferror setvbuf fstat closedir readdir nanosleep sleep "
          "epoll_create1 epoll_ctl epoll_wait timerfd_create timerfd_settime pthread_create munmap dlclose dlerror "
          "inotify_rm_watch raise sigprocmask sigemptyset sigaddset gmtime_r localtime_r mktime timegm strftime tzset "
          "sched_getaffinity freeaddrinfo gai_strerror inet_ntop inet_pton getaddrinfo").split()

# (function, sink) pairs that are not under Janet code's control, with reason
# value: (reason, mask that must nevertheless be asserted or None)
CONTEXT_EXCEPTIONS = {
    ("ts_now", "clock_gettime"): ("event loop's private monotonic clock for timer bookkeeping; the value is never handed to Janet code", None),
    ("janet_cryptorand", "open"): ("opens the fixed path /dev/urandom to read randomness; no caller-controlled path, no file-system access granted", None),
    ("os_execute_impl", "environ"): ("the process environment is handed to the spawned child, not to Janet code; requires SUBPROCESS asserted", B["SUBPROCESS"]),
}


class Guard(object):
    """Interprocedural, path-sensitive must analysis.
    A path state is a frozenset of facts: ("a", bit) capability bit asserted on this path;
    ("c", var, value) local int `var` holds constant `value` (refines branches on flags such as read_flag).
    A function state is a frozenset of path states (alternatives)."""

    CAP = 24

    def __init__(self, chk, prog):
        self.chk = chk
        self.prog = prog
        self.cg = CallGraph(prog)
        cg = self.cg
        self.entries = set()
        for (rec, field), tg in cg.field_targets.items():
            if rec in ("JanetRegExt", "JanetReg", "JanetMethod", "JanetAbstractType"):
                self.entries |= set(t for t in tg if t in cg.funcs)
        if len(self.entries) < 300:
            raise AnalysisBroken("only %d entry points found" % len(self.entries))
        # functions that are handed over as an argument somewhere: they run with the state of the site that
        # passes them (worker-thread subroutines, event callbacks), not with that of the generic invoker
        self.passed_somewhere = set()
        for fid, fs in cg.passed.items():
            self.passed_somewhere |= fs
        self.ret_summary = {}     # fid -> frozenset of frozenset(bits) asserted at return (alternatives)
        self.entry_state = {}

    @staticmethod
    def bits_of(mask):
        return [1 << i for i in range(20) if mask & (1 << i)]

    def _transfer_factory(self, fn):
        intlocals = set(n.name for n in fn.nodes if n.k == "vardecl" and n.t in ("int", "int32_t", "_Bool", "bool"))
        summ = self.ret_summary
        cg = self.cg

        def transfer_set(S, n):
            """works on the whole alternative set because calls can fork alternatives"""
            if n.k == "call":
                if n.callee == "janet_sandbox_assert":
                    v = n.args[0].v if n.args else None
                    if v is not None:
                        add = frozenset(("a", b) for b in self.bits_of(v))
                        return frozenset(s | add for s in S)
                    return S
                tgt = cg.resolve_name(n.callee, fn.tu) if n.callee else None
                if tgt in summ and summ[tgt]:
                    alts = summ[tgt]
                    if alts != frozenset([frozenset()]):
                        out = set()
                        for s in S:
                            for a in alts:
                                out.add(s | frozenset(("a", b) for b in a))
                        return self._cap(frozenset(out))
                return S
            if n.k == "vardecl" and n.name in intlocals:
                S = frozenset(frozenset(f for f in s if not (f[0] == "c" and f[1] == n.name)) for s in S)
                if n.kids and n.kids[0].v is not None:
                    S = frozenset(s | frozenset([("c", n.name, n.kids[0].v)]) for s in S)
                return S
            if n.k == "asg" and is_ref(n.kids[0]) and n.kids[0].name in intlocals:
                nm = n.kids[0].name
                S = frozenset(frozenset(f for f in s if not (f[0] == "c" and f[1] == nm)) for s in S)
                if n.op == "=" and n.kids[1].v is not None:
                    S = frozenset(s | frozenset([("c", nm, n.kids[1].v)]) for s in S)
                # open(2) flags that create, truncate or write: the variable now carries write intent
                if n.op in ("|=", "=") and n.kids[1].v is not None and (n.kids[1].v & WRITE_INTENT_BITS):
                    S = frozenset(s | frozenset([("w", nm)]) for s in S)
                return S
            if n.k == "un" and n.op in ("pre++", "post++", "pre--", "post--") and is_ref(n.kids[0]) and n.kids[0].name in intlocals:
                nm = n.kids[0].name
                return frozenset(frozenset(f for f in s if not (f[0] == "c" and f[1] == nm)) for s in S)
            return S

        def edge_set(S, blk, succ, cond, truth):
            if cond is None:
                return S
            c = flow.compare_of(cond, truth)
            if c is None:
                return S
            lhs, op, rhs = c
            l = strip_casts(lhs)
            if l.k != "ref" or l.name not in intlocals:
                return S
            rv = 0 if rhs is None else strip_casts(rhs).v
            if rv is None:
                return S
            out = set()
            for s in S:
                known = [f[2] for f in s if f[0] == "c" and f[1] == l.name]
                if known:
                    val = known[0]
                    holds = {"==": val == rv, "!=": val != rv, "<": val < rv, "<=": val <= rv,
                             ">": val > rv, ">=": val >= rv}[op]
                    if not holds:
                        continue
                out.add(s)
            return frozenset(out) if out else None
        return transfer_set, edge_set

    def _cap(self, S):
        if len(S) > self.CAP:
            return frozenset([frozenset.intersection(*S)])
        return S

    def analyse_fn(self, fid, entry):
        fn = self.cg.funcs[fid]
        T, E = self._transfer_factory(fn)

        def J(a, b):
            return self._cap(a | b)
        IN, OUT = flow.forward(fn, entry, T, J, edge=E)
        states = {}
        rets = set()
        for b, st in IN.items():
            blk = fn.blocks[b]
            for n in blk.elems:
                if n.k in ("call", "ref"):
                    states[n.id] = st
                st = T(st, n)
            if fn.exit in blk.succs and not blk.noreturn:
                for s in st:
                    rets.add(frozenset(f[1] for f in s if f[0] == "a"))
        return states, frozenset(rets)

    def compute_return_summaries(self):
        """bits asserted on every return path of a function, relative to its entry (alternatives kept).
        Computed bottom-up to a fixed point, only for functions that contain or reach an assert."""
        cg = self.cg
        asserter = cg.reaches({cg.find("janet_sandbox_assert")})
        todo = [f for f in asserter if f in cg.funcs and f[1] != "janet_sandbox_assert"]
        for _ in range(6):
            changed = False
            for fid in todo:
                st, rets = self.analyse_fn(fid, frozenset([frozenset()]))
                if not rets:
                    rets = frozenset()
                rets = self._cap(rets) if rets else rets
                if self.ret_summary.get(fid) != rets:
                    self.ret_summary[fid] = rets
                    changed = True
            if not changed:
                break

    def run(self):
        cg = self.cg
        self.compute_return_summaries()
        entry = {}
        for e in self.entries:
            entry[e] = frozenset([frozenset()])
        work = list(self.entries)
        inq = set(work)
        results = {}
        iters = 0
        while work:
            iters += 1
            if iters > 60000:
                raise AnalysisBroken("C18 interprocedural fixpoint did not converge")
            fid = work.pop()
            inq.discard(fid)
            states, _ = self.analyse_fn(fid, entry[fid])
            results[fid] = states
            fn = cg.funcs[fid]
            for (n, tgt, kind) in cg.sites.get(fid, ()):
                if n.id not in states:
                    continue
                s = frozenset(frozenset(f for f in ps if f[0] == "a") for ps in states[n.id])
                out = []
                for t in tgt:
                    if kind != "direct" and t in self.passed_somewhere:
                        continue      # runs with the state of the site that passed it
                    out.append(t)
                for a in n.args:
                    fr = cg._fnref(a, fn.tu)
                    if fr is not None:
                        out.append(fr)
                for t in out:
                    if t not in cg.funcs or t == fid or t in self.entries:
                        continue
                    new = s if t not in entry else self._cap(entry[t] | s)
                    if t not in entry or new != entry[t]:
                        entry[t] = new
                        if t not in inq:
                            inq.add(t)
                            work.append(t)
        self.entry_state = entry
        self.results = results
        return entry, results


def holds(state, mask):
    """every alternative path state has asserted at least one bit of mask"""
    return all(any(f[0] == "a" and (f[1] & mask) for f in ps) for ps in state)


def common_bits(state):
    m = None
    for ps in state:
        b = 0
        for f in ps:
            if f[0] == "a":
                b |= f[1]
        m = b if m is None else (m & b)
    return m or 0


def _guard_rule(chk, prog):
    rule = "C18-GUARD"
    chk.rule(rule, "every capability-acquiring libc call reachable from Janet-callable code is dominated by a covering janet_sandbox_assert")
    G = Guard(chk, prog)
    entry, results = G.run()
    cg = G.cg
    chk.extra["entry_points"] = len(G.entries)
    chk.extra["functions_reachable_from_entries"] = len(results)
    externals = {}
    guarded_bits = 0
    for fid, states in results.items():
        fn = cg.funcs[fid]
        chk.analysed(fn)
        for (n, tgt, kind) in cg.sites.get(fid, ()):
            names = []
            if n.callee in INTERNAL_SINKS:
                mask, cls = INTERNAL_SINKS[n.callee]
                if n.id in states:
                    chk.instance(rule)
                    if holds(states[n.id], mask):
                        guarded_bits |= mask
                        chk.ok(rule, "%s: %s [%s] guarded" % (fn.name, n.callee, cls))
                    else:
                        chk.violation(rule, fn.tu.name, fn.name, n.callee, n.loc,
                                      "%s() [%s] converts between Janet values and raw memory (it follows pointers found in the data) and is "
                                      "reachable from Janet code without janet_sandbox_assert of that capability on every path; e.g. via %s" % (
                                          n.callee, cls, " -> ".join(_chain(G, fid))), _chain(G, fid))
            if n.callee and prog.is_external(n.callee):
                names = [n.callee]
            elif kind != "direct":
                names = [t for t in tgt if isinstance(t, str) and prog.is_external(t)]
            for name in names:
                externals.setdefault(name, 0)
                externals[name] += 1
                if name not in SINKS:
                    continue
                if n.id not in states:
                    continue
                mask, cls = SINKS[name]
                chk.instance(rule)
                full = states[n.id]
                st = common_bits(full)
                # a flags argument that was given create/truncate/write bits on this path needs FS_WRITE itself
                if name in ("open", "openat") and len(n.args) >= 2 and strip_casts(n.args[1]).k == "ref":
                    fv = strip_casts(n.args[1]).name
                    lacking = [ps for ps in full if ("w", fv) in ps and not any(f[0] == "a" and f[1] == B["FS_WRITE"] for f in ps)]
                    chk.instance(rule)
                    if lacking:
                        chk.violation(rule, fn.tu.name, fn.name, "%s:write-intent" % name, n.loc,
                                      "%s() is reached on a path where `%s` was given O_CREAT/O_TRUNC/O_WRONLY/O_RDWR but "
                                      "JANET_SANDBOX_FS_WRITE was not asserted on that path: creating or truncating a file slips past "
                                      "(sandbox :fs-write)" % (name, fv))
                    else:
                        chk.ok(rule, "%s: %s with write intent only after FS_WRITE was asserted" % (fn.name, name))
                if holds(full, mask):
                    guarded_bits |= mask
                    chk.ok(rule, "%s: %s [%s] guarded (asserted on every path: %#x)" % (fn.name, name, cls, st))
                elif (fn.name, name) in CONTEXT_EXCEPTIONS and \
                        (CONTEXT_EXCEPTIONS[(fn.name, name)][1] is None or holds(full, CONTEXT_EXCEPTIONS[(fn.name, name)][1])):
                    chk.exception(rule, "%s -> %s" % (fn.name, name), CONTEXT_EXCEPTIONS[(fn.name, name)][0])
                    chk.ok(rule, "%s: %s (context exception)" % (fn.name, name))
                else:
                    # witness: a call chain from an entry
                    chain = _chain(G, fid)
                    chk.violation(rule, fn.tu.name, fn.name, name, n.loc,
                                  "%s() [%s] is reachable from Janet code without janet_sandbox_assert of that capability "
                                  "on every path (asserted on all paths here: %#x); e.g. via %s" % (name, cls, st, " -> ".join(chain)),
                                  chain)
        # calls through pointers to code outside the program: foreign functions (FFI) and native module entry points
        for (n, tgt, kind) in cg.sites.get(fid, ()):
            if kind.startswith("ptr:") and not tgt and n.id in states:
                if fn.tu.name == "ffi.c":
                    mask, cls = B["FFI_USE"], "FFI_USE"
                elif fn.tu.name == "corelib.c":
                    mask, cls = B["DYNAMIC_MODULES"], "DYNAMIC_MODULES"
                else:
                    continue
                chk.instance(rule)
                if holds(states[n.id], mask):
                    guarded_bits |= mask
                    chk.ok(rule, "%s: call through %s [%s] guarded" % (fn.name, kind, cls))
                else:
                    chk.violation(rule, fn.tu.name, fn.name, "foreign-call", n.loc,
                                  "call into foreign code (%s) [%s] without janet_sandbox_assert on every path; e.g. via %s" % (
                                      n.kids[0].text()[:40], cls, " -> ".join(_chain(G, fid))))
        # global variable sinks
        for n in fn.nodes:
            if n.k == "ref" and n.d.get("d") == "gvar" and n.name in GVAR_SINKS and n.id in states:
                mask, cls = GVAR_SINKS[n.name]
                chk.instance(rule)
                ex = CONTEXT_EXCEPTIONS.get((fn.name, n.name))
                if holds(states[n.id], mask):
                    guarded_bits |= mask
                    chk.ok(rule, "%s: %s [%s] guarded" % (fn.name, n.name, cls))
                elif ex is not None and (ex[1] is None or holds(states[n.id], ex[1])):
                    chk.exception(rule, "%s -> %s" % (fn.name, n.name), ex[0])
                    chk.ok(rule, "%s: %s (context exception)" % (fn.name, n.name))
                else:
                    chk.violation(rule, fn.tu.name, fn.name, n.name, n.loc,
                                  "%s [%s] read without janet_sandbox_assert on every path" % (n.name, cls))
    # FFI: calling through a foreign function pointer
    unclassified = sorted(k for k in externals if k not in SINKS and k not in BENIGN)
    chk.extra["external_functions_called"] = {k: ("sink:" + SINKS[k][1]) if k in SINKS else ("benign" if k in BENIGN else "unclassified")
                                              for k in sorted(externals)}
    chk.extra["unclassified_externals"] = [k for k in unclassified if not k.startswith(("mem", "str", "__", "pthread_", "f", "s"))][:80]
    chk.floor(rule, 40)
    return G, guarded_bits


def _chain(G, fid):
    """some call chain entry -> ... -> fid (shortest, over call edges incl. passed functions)"""
    from collections import deque
    cg = G.cg
    prev = {}
    q = deque()
    for e in G.entries:
        prev[e] = None
        q.append(e)
    while q:
        x = q.popleft()
        if x == fid:
            out = []
            while x is not None:
                out.append(x[1])
                x = prev[x]
            return out[::-1]
        for y in cg.callees(x, with_passed=True):
            if y in cg.funcs and y not in prev:
                prev[y] = x
                q.append(y)
    return [fid[1]]


def _monotone_rule(chk, prog, G):
    rule = "C18-MONOTONE"
    chk.rule(rule, "sandbox_flags is written only by =0 (init), |= (janet_sandbox) and the thread-start copy of the parent's flags")
    writes = 0
    for fn in prog.all_funcs():
        for n in fn.nodes:
            if n.k == "asg" and is_mem(n.kids[0], "sandbox_flags", "JanetVM"):
                writes += 1
                chk.instance(rule)
                rhs = strip_casts(n.kids[1])
                if fn.name == "janet_init" and n.op == "=" and rhs.v == 0:
                    chk.ok(rule, "janet_init: sandbox_flags = 0")
                elif fn.name == "janet_sandbox" and n.op == "|=":
                    # must be preceded by janet_sandbox_assert(JANET_SANDBOX_SANDBOX)
                    calls = [c for c in fn.calls("janet_sandbox_assert") if c.args and (c.args[0].v or 0) & B["SANDBOX"]]
                    if calls and calls[0].ln <= n.ln:
                        chk.ok(rule, "janet_sandbox: asserts SANDBOX then |=")
                    else:
                        chk.violation(rule, fn.tu.name, fn.name, "assert-sandbox", n.loc,
                                      "janet_sandbox no longer asserts JANET_SANDBOX_SANDBOX before changing the flags")
                elif fn.name == "janet_go_thread_subr" and n.op == "=" and rhs.k == "mem" and rhs.field == "argi":
                    # janet_init zeroes the field: the copy has to come after every call of it
                    target = None
                    for b in fn.blocks.values():
                        if any(n is y or n in list(y.walk()) for y in b.elems):
                            target = b
                    later = []
                    if target is not None:
                        seen_n = False
                        for y in target.elems:
                            if n is y or n in list(y.walk()):
                                seen_n = True
                            elif seen_n:
                                later += [c for c in y.walk() if c.k == "call" and c.callee == "janet_init"]
                        for bid in flow.reachable_from(fn, target.id):
                            if bid != target.id:
                                later += [c for y in fn.blocks[bid].elems for c in y.walk() if c.k == "call" and c.callee == "janet_init"]
                    if later:
                        chk.violation(rule, fn.tu.name, fn.name, "copy-before-init", n.loc,
                                      "janet_go_thread_subr stores the flags inherited from the launching thread at %s and calls janet_init() "
                                      "afterwards (%s), which sets sandbox_flags back to 0: every thread started after sandboxing runs with all "
                                      "capabilities enabled and may even call sandbox again" % (n.loc, later[0].loc))
                    else:
                        chk.ok(rule, "janet_go_thread_subr: flags taken from the launch message, after janet_init")
                else:
                    chk.violation(rule, fn.tu.name, fn.name, "sandbox_flags", n.loc,
                                  "unexpected write `%s`: disabled capabilities could be re-enabled" % n.text())
    chk.floor(rule, 3)
    # every launch site of janet_go_thread_subr passes the current flags
    launches = 0
    for fn in prog.all_funcs():
        for c in fn.calls():
            if not any(is_ref(strip_casts(a), "janet_go_thread_subr") for a in c.args):
                continue
            launches += 1
            chk.instance(rule)

            def reads_flags(e):
                return any(is_mem(x, "sandbox_flags", "JanetVM") for x in e.walk())
            if c.callee == "janet_ev_threaded_await":
                if len(c.args) >= 3 and reads_flags(c.args[2]):
                    chk.ok(rule, "%s: janet_ev_threaded_await passes janet_vm.sandbox_flags as argi" % fn.name)
                else:
                    chk.violation(rule, fn.tu.name, fn.name, "launch:janet_ev_threaded_await", c.loc,
                                  "thread launched without the parent's sandbox flags (argi = %s)" % (c.args[2].text() if len(c.args) > 2 else "?"))
            elif c.callee == "janet_ev_threaded_call":
                msg = strip_casts(c.args[1])
                if not is_ref(msg):
                    chk.violation(rule, fn.tu.name, fn.name, "launch:janet_ev_threaded_call", c.loc, "launch message is not a local record")
                    continue
                var = msg.name

                def transfer(st, n):
                    if n.k == "asg" and n.kids[0].k == "mem" and n.kids[0].field == "argi" and is_ref(n.kids[0].kids[0], var):
                        return frozenset(["set"]) if (n.op == "=" and reads_flags(n.kids[1])) else frozenset()
                    if n.k == "call" and n.callee == "memset" and any(x.k == "ref" and x.name == var for x in n.args[0].walk()):
                        return frozenset()
                    if n.k == "vardecl" and n.name == var:
                        return frozenset()
                    return st
                IN, OUT = flow.forward(fn, frozenset(), transfer, lambda a, b: a & b)
                ok = None
                for b, st in IN.items():
                    for n in fn.blocks[b].elems:
                        if n is c:
                            ok = "set" in st
                        st = transfer(st, n)
                if ok:
                    chk.ok(rule, "%s: %s.argi = janet_vm.sandbox_flags on every path to janet_ev_threaded_call" % (fn.name, var))
                else:
                    chk.violation(rule, fn.tu.name, fn.name, "launch:janet_ev_threaded_call", c.loc,
                                  "on some path the launch message's argi is not set from janet_vm.sandbox_flags: the new "
                                  "thread would start with every capability enabled")
            else:
                chk.violation(rule, fn.tu.name, fn.name, "launch:%s" % c.callee, c.loc, "unknown way of starting janet_go_thread_subr")
    if launches < 2:
        raise AnalysisBroken("only %d thread launch sites found" % launches)


def _table_rule(chk, prog, guarded_bits):
    rule = "C18-TABLE"
    chk.rule(rule, "every JANET_SANDBOX_* bit has a keyword in (sandbox ...) and is asserted somewhere")
    bits = {}
    for name, m in prog.macros.items():
        if name.startswith("JANET_SANDBOX_") and m["body"].strip().isdigit():
            bits[name] = int(m["body"])
    if len(bits) < 14:
        raise AnalysisBroken("only %d JANET_SANDBOX_* bit macros found" % len(bits))
    for name, v in B.items():
        if bits.get("JANET_SANDBOX_" + name) != v:
            raise AnalysisBroken("capability bit table of the checker disagrees with janet.h for %s" % name)
    tu = prog.tus["corelib.c"]
    init = tu.ginit("sandbox_options")
    if init is None:
        raise AnalysisBroken("sandbox_options table not found")
    opt = {}
    for row in init.kids:
        if row.k == "init" and row.kids and row.kids[0].k == "str" and len(row.kids) > 1 and row.kids[1].v is not None:
            opt[row.kids[0].d["s"]] = row.kids[1].v
    asserted = 0
    for fn in prog.all_funcs():
        for c in fn.calls("janet_sandbox_assert"):
            if c.args and c.args[0].v is not None and c.args[0].v < (1 << 20):
                asserted |= c.args[0].v
    for name, v in sorted(bits.items()):
        chk.instance(rule)
        exact = [k for k, ov in opt.items() if ov == v]
        if not exact:
            chk.violation(rule, "corelib.c", "sandbox_options", name, tu.file, "no (sandbox ...) keyword disables exactly %s" % name)
        elif not (asserted & v):
            chk.violation(rule, "corelib.c", "sandbox_options", name, tu.file, "capability %s is never asserted anywhere: nothing enforces it" % name)
        else:
            chk.ok(rule, "%s: keyword :%s, asserted in the program" % (name, exact[0]))
    for k, ov in sorted(opt.items()):
        chk.instance(rule)
        if ov != 0xFFFFFFFF and ov & ~sum(bits.values()):
            chk.violation(rule, "corelib.c", "sandbox_options", k, tu.file, "keyword :%s maps to unknown bits %#x" % (k, ov))
        else:
            chk.ok(rule, "keyword :%s -> %#x" % (k, ov))
    chk.floor(rule, 28)


def _assertany_rule(chk, prog):
    """Every other C18 rule reasons with "after janet_sandbox_assert(M) returns, no bit of M is set in sandbox_flags".
    That holds only if the assert raises as soon as ANY requested bit is disabled: the raise must be guarded by the bare
    intersection `M & sandbox_flags` (truthiness), not by a test that all bits are set."""
    rule = "C18-ASSERTANY"
    chk.rule(rule, "janet_sandbox_assert raises whenever any of the requested capability bits is disabled")
    fn = next((f for f in prog.all_funcs() if f.name == "janet_sandbox_assert"), None)
    if fn is None:
        raise AnalysisBroken("janet_sandbox_assert not found")
    chk.analysed(fn)
    par = fn.params[0]["n"]
    ifs = [x for x in fn.nodes if x.k == "if"]
    raises = [x for x in fn.nodes if x.k == "call" and x.callee and prog.is_noreturn(x.callee)]
    chk.instance(rule)
    if len(ifs) != 1 or not raises:
        raise AnalysisBroken("janet_sandbox_assert: expected one guarded raise, found %d conditions / %d raises" % (len(ifs), len(raises)))
    c = strip_casts(ifs[0].kids[0])
    ok = (c.k == "bin" and c.op == "&"
          and sorted("p" if is_ref(strip_casts(k), par) else "f" if strip_casts(k).k == "mem" and strip_casts(k).field == "sandbox_flags" else "?"
                     for k in c.kids) == ["f", "p"])
    if ok:
        chk.ok(rule, "janet_sandbox_assert raises iff (%s & sandbox_flags) != 0" % par)
    else:
        chk.violation(rule, fn.tu.name, fn.name, "condition", ifs[0].loc,
                      "janet_sandbox_assert raises under `%s`, not under the bare intersection `%s & sandbox_flags`: a call that names "
                      "several capabilities passes while some of them are disabled" % (c.text()[:80], par))


def run(chk):
    prog = Program.load("default")
    G, guarded_bits = _guard_rule(chk, prog)
    _monotone_rule(chk, prog, G)
    _table_rule(chk, prog, guarded_bits)
    _assertany_rule(chk, prog)
    _applyall_rule(chk, prog)
    _threadctx_rule(chk, prog)
    _sandboxcall_rule(chk, prog)


def _applyall_rule(chk, prog):
    """janet_sandbox is the one place that disables capabilities.  A call that returns normally must have ORed every
    requested bit into janet_vm.sandbox_flags: an early return (say, because SOME of the bits were already set) makes
    (sandbox :fs-write :net-connect) a silent no-op for the bits that were not, and the caller believes they are off."""
    rule = "C18-APPLYALL"
    chk.rule(rule, "every returning path of janet_sandbox has ORed the requested flags into janet_vm.sandbox_flags")
    fn = prog.need_func("janet_sandbox", "vm.c")
    chk.analysed(fn)

    def transfer(st, x):
        if x.k == "asg" and x.op == "|=" and is_mem(x.kids[0], "sandbox_flags", "JanetVM") and \
                any(y.k == "ref" and y.name == fn.params[0]["n"] for y in x.kids[1].walk()):
            return st | {"applied"}
        return st
    IN, OUT, T = flow.forward_paths(fn, frozenset(), transfer)
    n = 0
    for b, kind in flow.exits(fn):
        if kind != "return" or b.id not in OUT:
            continue
        n += 1
        chk.instance(rule)
        if all("applied" in st for st in OUT[b.id]):
            chk.ok(rule, "janet_sandbox: flags applied before this return")
        else:
            where = b.term or (b.elems[-1] if b.elems else None)
            chk.violation(rule, "vm.c", "janet_sandbox", "return-without-apply", where.loc if where is not None else fn.loc,
                          "janet_sandbox can return without `sandbox_flags |= flags`: the call succeeds but some requested capabilities "
                          "stay enabled")
    chk.floor(rule, 1, n)


def _threadctx_rule(chk, prog):
    """The sandbox flags live in the thread-local VM.  The subroutine of janet_ev_threaded_call / _await runs on a bare
    worker thread whose janet_vm is all zeros: a janet_sandbox_assert evaluated there always passes.  A capability
    has to be asserted by the function that hands the work over, on the interpreter's own thread."""
    rule = "C18-THREADCTX"
    chk.rule(rule, "no janet_sandbox_assert is evaluated on a worker thread (in a threaded subroutine or anything it calls): its VM has no sandbox flags")
    from jv.callgraph import CallGraph
    cg = CallGraph(prog)
    subs = set()
    for fn in prog.all_funcs():
        for c in fn.calls("janet_ev_threaded_call", "janet_ev_threaded_await"):
            a = strip_casts(c.args[0]) if c.args else None
            if a is not None and a.k == "ref":
                f = prog.func(a.name, fn.tu) or next((g for g in prog.all_funcs() if g.name == a.name), None)
                if f is not None:
                    subs.add(cg.fid(f))
    if len(subs) < 3:
        raise AnalysisBroken("only %d threaded subroutines found" % len(subs))
    # everything they call directly (transitively), except the interpreter start-up of ev/thread, which builds its own VM
    work, seen = list(subs), set()
    while work:
        f = work.pop()
        if f in seen or f not in cg.funcs:
            continue
        seen.add(f)
        if f[1] in ("janet_go_thread_subr",):
            continue
        for (n_, tgt, kind) in cg.sites.get(f, ()):
            if kind == "direct":
                for t in tgt:
                    if isinstance(t, tuple):
                        work.append(t)
    n = 0
    for f in sorted(seen, key=str):
        fn = cg.funcs[f]
        if f[1] == "janet_go_thread_subr":
            continue
        n += 1
        chk.instance(rule)
        chk.analysed(fn)
        a = fn.calls("janet_sandbox_assert")
        if a:
            chk.violation(rule, fn.tu.name, fn.name, "assert-on-worker", a[0].loc,
                          "`%s` runs on a worker thread started by janet_ev_threaded_call / _await, where the thread-local janet_vm is "
                          "zero-initialised: the assertion never fires, so the operation it guards runs inside a sandbox" % a[0].text()[:50])
        else:
            chk.ok(rule, "%s: no sandbox test on the worker thread" % fn.name)
    chk.floor(rule, 3, n)


def _sandboxcall_rule(chk, prog):
    """(sandbox ...) collects the requested flags and hands them to janet_sandbox, which ORs them in (C18-APPLYALL).
    The cfunction itself must not decide that there is "nothing to do": any normal return that skips janet_sandbox
    leaves requested capabilities enabled while the caller believes they are off."""
    rule = "C18-SANDBOXCALL"
    chk.rule(rule, "every returning path of the sandbox cfunction has called janet_sandbox with the collected flags")
    fn = prog.need_func("janet_core_sandbox", "corelib.c")
    chk.analysed(fn)
    chk.instance(rule)

    def transfer(st, x):
        if x.k == "call" and x.callee == "janet_sandbox":
            return st | {"applied"}
        return st
    IN, OUT, T = flow.forward_paths(fn, frozenset(), transfer)
    bad = None
    for b, kind in flow.exits(fn):
        if kind != "return" or b.id not in OUT:
            continue
        for ps in OUT[b.id]:
            if "applied" not in ps:
                bad = b
    if bad is None:
        chk.ok(rule, "janet_core_sandbox always reaches janet_sandbox")
    else:
        last = bad.elems[-1] if bad.elems else fn
        chk.violation(rule, "corelib.c", fn.name, "skip", last.loc,
                      "janet_core_sandbox can return (near %s) without calling janet_sandbox: (sandbox :fs-read) followed by (sandbox :fs) "
                      "returns normally and leaves fs-write and fs-temp enabled" % last.loc)
    chk.floor(rule, 1)
