"""C05 over the control macros that are written in Janet (src/boot/boot.janet).

C05-CLEANUPMASK   try / defer / edefer / with-vars (and any other macro of the same shape) wrap their body in a fiber
                  created with a literal signal mask, resume it once and then branch on (fiber/status f).  The mask
                  decides which statuses can come back to the macro: :dead plus one status per signal the mask lets the
                  fiber catch (the letters are read from the switch in cfun_fiber_new).  For every branch of the status
                  test the rule computes the set of statuses that reach it and requires
                    (plain)    a branch that merely hands back the resume value - no propagate, no handler - is
                               reached by :dead only: for any other status the value is a signal payload, and handing
                               it back swallows the signal;
                    (cleanup)  when the macro has a cleanup form (the parameter spliced in as `,form`, or a
                               `,;restore...` splice after the resume), every status other than :dead passes it.

Decided from the source text of boot.janet with the reader in jv/janetsrc.py; nothing is expanded or run.
"""
import os
from jv import janetsrc as js
from jv.facts import REPO, AnalysisBroken
from jv.util import case_map

BOOT = os.path.join("src", "boot", "boot.janet")

MASK_STATUS = {
    "JANET_FIBER_MASK_ERROR": ["error"],
    "JANET_FIBER_MASK_DEBUG": ["debug"],
    "JANET_FIBER_MASK_YIELD": ["pending"],
    "JANET_FIBER_MASK_USER": ["user%d" % i for i in range(10)],
}
for _i in range(10):
    MASK_STATUS["JANET_FIBER_MASK_USER%d" % _i] = ["user%d" % _i]


def mask_letters(prog):
    """letter -> set of statuses, from the switch over the flag characters in cfun_fiber_new"""
    fn = prog.need_func("cfun_fiber_new", "fiber.c")
    out = {}
    for sw in [x for x in fn.nodes if x.k == "switch"]:
        cm = case_map(sw)
        for y in fn.nodes:
            if y.k == "asg" and y.op == "|=" and y.kids[0].k == "mem" and y.kids[0].field == "flags" and y.id in cm:
                sts = set()
                for z in y.kids[1].walk():
                    for m in z.macro_names():
                        sts.update(MASK_STATUS.get(m.rstrip("@"), []))
                for lab in cm[y.id]:
                    t = str(lab).strip()
                    if len(t) == 3 and t[0] == "'" and t[2] == "'":
                        out.setdefault(t[1], set()).update(sts)
    if "t" not in out or "e" not in out or out["e"] != {"error"}:
        raise AnalysisBroken("cfun_fiber_new: the switch over mask letters was not recognised (%s)" % sorted(out))
    for d in "0123456789":
        out[d] = {"user" + d}
    return out


def _unq(n):
    """strip unquote"""
    while n.t == "unquote":
        n = n.v
    return n


def _head(n):
    if n.t == "tuple" and n.v:
        h = _unq(n.v[0])
        if h.t == "sym":
            return h.v
    return None


def _walk_calls(n):
    for y in n.walk():
        if y.t == "tuple" and y.v:
            yield y, _head(y)


def run(chk, prog):
    rule = "C05-CLEANUPMASK"
    chk.rule(rule, "in every boot.janet macro that resumes a fiber made with a literal mask and branches on its status, the branch "
                   "that hands back the plain resume value is reached by :dead only, and every other status passes the macro's cleanup form")
    letters = mask_letters(prog)
    path = os.path.join(REPO, BOOT)
    try:
        forms = js.read(open(path).read())
    except (IOError, js.JanetSyntaxError) as e:
        raise AnalysisBroken("boot.janet: %s" % e)
    n = 0
    for f in forms:
        if f.head() not in ("defmacro", "defmacro-") or len(f.v) < 3:
            continue
        name = f.v[1].v
        params, body = js.fn_parts(f)
        if params is None:
            continue
        masks = []
        tests = []
        for b in body:
            for call, h in _walk_calls(b):
                if h == "fiber/new" and len(call.v) >= 3 and call.v[-1].t == "kw":
                    masks.append(call.v[-1].v)
                if h == "if" and len(call.v) >= 3:
                    t = call.v[1]
                    if _head(t) in ("=", "not=") and len(t.v) == 3:
                        a, b2 = t.v[1], t.v[2]
                        if _head(b2) == "fiber/status":
                            a, b2 = b2, a
                        if _head(a) == "fiber/status" and b2.t == "kw":
                            tests.append((call, _head(t), b2.v))
        if not masks or not tests:
            continue
        if len(set(masks)) != 1:
            chk.note("%s: %s creates fibers with several masks %s; not judged" % (rule, name, sorted(set(masks))))
            continue
        mask = masks[0]
        statuses = {"dead"}
        for ch in mask:
            if ch in ("i", "p"):
                continue
            if ch not in letters:
                raise AnalysisBroken("%s: mask letter %r of :%s is not a case of cfun_fiber_new" % (name, ch, mask))
            statuses |= letters[ch]
        # the cleanup form: a parameter named form spliced into the template, or a `,;restore...` splice
        pnames = [p.v for p in params.v if p.t == "sym"]
        cleanup = None
        if "form" in pnames:
            cleanup = lambda y: y.t == "unquote" and y.v.t == "sym" and y.v.v == "form"   # noqa
        elif any(y.t == "unquote" and y.v.t == "splice" and y.v.v.t == "sym" and y.v.v.v.startswith("restore")
                 for b in body for y in b.walk()):
            cleanup = lambda y: y.t == "unquote" and y.v.t == "splice" and y.v.v.t == "sym" and y.v.v.v.startswith("restore")   # noqa
        # a macro that has a cleanup to run must see every way its body can end: the mask has to admit all the
        # terminating signals (what the letter t stands for: error and user0-4); a body left by (signal 0 ...) - which is
        # what `return` to an enclosing prompt does - otherwise goes past the macro and the cleanup never runs
        if cleanup is not None:
            n += 1
            chk.instance(rule)
            missing = sorted(letters["t"] - statuses)
            if missing:
                chk.violation(rule, "boot.janet", name, "mask:" + mask, "%s:%d" % (BOOT, f.line),
                              "%s runs a cleanup form after its body but creates the body's fiber with mask :%s, which does not catch %s: a body "
                              "that ends with one of those signals (`return` to an enclosing prompt raises user0) leaves through the macro "
                              "without the cleanup" % (name, mask, ", ".join(":" + m for m in missing)))
            else:
                chk.ok(rule, "%s: mask :%s catches every terminating signal before the cleanup" % (name, mask))
        for (iff, op, kw) in tests:
            n += 1
            chk.instance(rule)
            then = iff.v[2]
            els = iff.v[3] if len(iff.v) > 3 else None
            hit = {kw} & statuses
            rest = statuses - {kw}
            arms = [(then, hit if op == "=" else rest), (els, rest if op == "=" else hit)]
            bad = None
            # is the cleanup done unconditionally before the test (a sibling form that precedes the `if`)?
            before = False
            if cleanup:
                for b in body:
                    for y in b.walk():
                        if y.t == "tuple" and iff in y.v:
                            idx = y.v.index(iff)
                            before = any(cleanup(z) for s in y.v[:idx] for z in s.walk())
            for arm, sts in arms:
                if not sts:
                    continue
                plain = arm is None or (_unq(arm).t == "sym" and arm.t == "unquote")
                if plain and sts - {"dead"}:
                    bad = ("plain", arm, sts)
                    break
                if cleanup and (sts - {"dead"}) and not before and not (arm is not None and any(cleanup(z) for z in arm.walk())):
                    bad = ("cleanup", arm, sts)
                    break
            loc = "%s:%d" % (BOOT, iff.line)
            if bad:
                what, arm, sts = bad
                others = ", ".join(":" + s for s in sorted(sts - {"dead"}))
                if what == "plain":
                    msg = ("%s resumes a fiber made with mask :%s, so the statuses %s can come back to it, and the arm of the status "
                           "test at %s that just hands back the resume value is taken for %s: the signal is swallowed, its payload is "
                           "returned as if the body had finished%s" % (name, mask, ", ".join(":" + s for s in sorted(statuses)), loc, others,
                                                                        " and the cleanup form does not run" if cleanup else ""))
                else:
                    msg = ("%s resumes a fiber made with mask :%s; the arm of the status test at %s taken for %s does not pass the "
                           "cleanup form" % (name, mask, loc, others))
                chk.violation(rule, "boot.janet", name, "status:%s:%s" % (op, kw), loc, msg)
            else:
                chk.ok(rule, "%s: mask :%s -> {%s}; (%s status :%s) arms are consistent" % (name, mask, ",".join(sorted(statuses)), op, kw))
    chk.floor(rule, 4, n)
