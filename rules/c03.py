"""C03 - equality, hashing and ordering agree with each other: structural clauses.

C03-PARTITION  the sets of types compared by content in janet_equals / janet_hash / janet_compare agree
C03-ABSTRACT   an abstract type with a compare hook has a hash hook
C03-INTERN     symbols are allocated only by the interning routines, after a cache lookup and followed by insertion;
               the collector removes dead symbols from the cache
C03-BEGINEND   a tuple/struct/string under construction escapes only through the matching _end (which caches its hash)
C03-NEGZERO    janet_hash normalises -0.0 before extracting the bits of a number
"""
from jv import flow
from jv.facts import Program, AnalysisBroken
from jv.util import is_ref, is_mem, strip_casts, switch_cases, case_name, case_map, enclosing_cases

EXPLANATION = (
    "Static rules: the case sets of the three type switches in janet_equals / janet_hash / janet_compare are "
    "extracted and compared (a type equated by content must be hashed and ordered by content); every "
    "JanetAbstractType initialiser with a compare hook must have a hash hook; who-may-allocate symbols plus "
    "lookup-before / insert-after ordering in the interning routines; typestate of begin/end constructors; "
    "must-pass-through of the -0.0 normalisation in janet_hash.  Necessary structural conditions of "
    "'equal implies equal hash and compare 0'; transitivity, canonical struct layout and hash quality are "
    "value-level and not decided.")
ASSUMPTIONS = ["default Linux configuration (nan-boxing)"]

IDENTITY_INTERNED = {"JANET_SYMBOL", "JANET_KEYWORD"}   # compared by bytes, equal by identity because interned (C03-INTERN)


def type_switch(fn, want_min=5):
    best = None
    for n in fn.nodes:
        if n.k == "switch":
            cs = switch_cases(n)
            names = [case_name(c) for c in cs if c.k == "case"]
            if sum(1 for x in names if x.startswith("JANET_")) >= want_min:
                if best is None or len(names) > len(best[1]):
                    best = (n, names, cs)
    if best is None:
        raise AnalysisBroken("%s: no switch over JanetType found" % fn.name)
    return best


def content_types(fn):
    """types whose arm is not the default (identity) arm.  A `case X:` label that falls into the default arm
    counts as default."""
    sw, names, cs = type_switch(fn)
    cm = case_map(sw)
    default_nodes = set(nid for nid, labs in cm.items() if "default" in labs)
    explicit = set()
    for nid, labs in cm.items():
        for l in labs:
            if l.startswith("JANET_") and "default" not in labs:
                explicit.add(l)
    # labels with an empty arm (case JANET_NIL: break;) have no nodes except break: collect from the case list too
    for c in cs:
        if c.k == "case":
            nm = case_name(c)
            labs = None
            for x in c.walk():
                if x.id in cm:
                    labs = cm[x.id]
                    break
            if labs is None or "default" not in labs:
                explicit.add(nm)
    return explicit


def _partition_rule(chk, prog):
    rule = "C03-PARTITION"
    chk.rule(rule, "types equated by content are hashed and ordered by content; types ordered by content are equated by content or interned")
    types = prog.enumtypes.get("JanetType")
    if not types:
        raise AnalysisBroken("enum JanetType not found")
    eq = content_types(prog.need_func("janet_equals", "value.c"))
    hs = content_types(prog.need_func("janet_hash", "value.c"))
    cp = content_types(prog.need_func("janet_compare", "value.c"))
    for f in ("janet_equals", "janet_hash", "janet_compare"):
        chk.analysed(prog.need_func(f, "value.c"))
    chk.extra["content_types"] = {"equals": sorted(eq), "hash": sorted(hs), "compare": sorted(cp)}
    if len(eq) < 5 or len(hs) < 5 or len(cp) < 5:
        raise AnalysisBroken("type switches lost their cases")
    for t in types:
        chk.instance(rule)
        probs = []
        if t in eq and t not in hs:
            probs.append("janet_equals compares %s by content but janet_hash hashes it by identity: equal values get different hashes" % t)
        if t in eq and t not in cp:
            probs.append("janet_equals compares %s by content but janet_compare orders it by address: equal values compare non-zero" % t)
        if t in cp and t not in eq and t not in IDENTITY_INTERNED:
            probs.append("janet_compare orders %s by content but janet_equals uses identity: compare can be 0 for unequal values" % t)
        if t in hs and t not in eq and t not in IDENTITY_INTERNED:
            probs.append("janet_hash hashes %s by content but janet_equals uses identity (harmless for correctness, but the partition drifted)" % t)
        if probs:
            for pr in probs[:1]:
                chk.violation(rule, "value.c", "janet_equals", t, prog.need_func("janet_equals", "value.c").loc, pr)
        else:
            chk.ok(rule, "%s: equals=%s hash=%s compare=%s" % (t, "content" if t in eq else "identity",
                                                            "content" if t in hs else "identity", "content" if t in cp else "identity"))
    # traversal_next handles the containers that equals/compare push
    tn = prog.need_func("traversal_next", "value.c")
    pushed = set()
    for f in ("janet_equals", "janet_compare"):
        fn = prog.need_func(f, "value.c")
        for c in fn.calls("push_traversal_node"):
            pushed |= set(x for x in enclosing_cases(c) if x.startswith("JANET_"))
    chk.instance(rule)
    if pushed == {"JANET_TUPLE", "JANET_STRUCT"}:
        chk.ok(rule, "containers traversed: %s" % sorted(pushed))
    else:
        chk.violation(rule, "value.c", "traversal_next", "containers", tn.loc,
                      "janet_equals/janet_compare push %s for traversal; traversal_next distinguishes only tuple and struct heads" % sorted(pushed))


def abstract_types(prog):
    """(tu, global name, {field: node}) for every JanetAbstractType initialiser"""
    fields = [f["n"] for f in prog.records["JanetAbstractType"]["fields"]]
    out = []
    for tu in prog.tus.values():
        for g in tu.globals.values():
            if "JanetAbstractType" in g["t"] and "init" in g:
                init = tu.ginit(g["n"])
                if init is None or init.k != "init":
                    continue
                vals = {}
                for i, k in enumerate(init.kids):
                    if i < len(fields):
                        vals[fields[i]] = strip_casts(k)
                out.append((tu, g["n"], vals))
    return out


def _abstract_rule(chk, prog):
    rule = "C03-ABSTRACT"
    chk.rule(rule, "an abstract type with a compare hook also has a hash hook")
    ats = abstract_types(prog)
    if len(ats) < 14:
        raise AnalysisBroken("only %d JanetAbstractType values found" % len(ats))
    for tu, name, vals in ats:
        chk.instance(rule)

        def present(f):
            v = vals.get(f)
            return v is not None and v.k != "zero" and v.v != 0
        if present("compare") and not present("hash"):
            chk.violation(rule, tu.name, name, "hash", tu.file,
                          "abstract type %s defines compare (values can be equal without being identical) but no hash: "
                          "equal values hash by address" % name)
        else:
            chk.ok(rule, "%s: compare=%s hash=%s" % (name, present("compare"), present("hash")))


def _intern_rule(chk, prog):
    rule = "C03-INTERN"
    chk.rule(rule, "symbols are allocated only in symcache.c after a cache lookup and are inserted into the cache; the collector removes them")
    n = 0
    for fn in prog.all_funcs():
        for c in fn.calls("janet_gcalloc"):
            if c.args and is_ref(strip_casts(c.args[0]), "JANET_MEMORY_SYMBOL"):
                n += 1
                chk.instance(rule)
                chk.analysed(fn)
                if fn.tu.name != "symcache.c":
                    chk.violation(rule, fn.tu.name, fn.name, "alloc", c.loc, "a symbol is allocated outside the interning module")
                    continue
                # lookup before, put after (source order inside the function is enough: straight-line routines)
                looks = [x for x in fn.calls("janet_symcache_findmem") if x.ln <= c.ln]
                puts = [x for x in fn.calls("janet_symcache_put") if x.ln >= c.ln]
                if looks and puts:
                    chk.ok(rule, "%s: lookup, allocate, insert" % fn.name)
                else:
                    chk.violation(rule, fn.tu.name, fn.name, "order", c.loc,
                                  "symbol allocation without %s: two symbols with the same bytes could coexist" % (
                                      "a preceding cache lookup" if not looks else "insertion into the cache"))
    if n < 2:
        raise AnalysisBroken("symbol allocation sites not found")
    # the found edge of the lookup returns the cached pointer
    js = prog.need_func("janet_symbol", "symcache.c")
    chk.instance(rule)
    rets = [r for r in js.nodes if r.k == "return" and r.kids and strip_casts(r.kids[0]).k == "un" and strip_casts(r.kids[0]).op == "*"]
    if rets:
        chk.ok(rule, "janet_symbol returns the cached symbol when the lookup succeeds")
    else:
        chk.violation(rule, "symcache.c", "janet_symbol", "found-edge", js.loc, "janet_symbol no longer returns the cached pointer on a successful lookup")
    # collector: JANET_MEMORY_SYMBOL -> janet_symbol_deinit
    db = prog.need_func("janet_deinit_block", "gc.c")
    chk.instance(rule)
    ok = False
    for c in db.calls("janet_symbol_deinit"):
        if "JANET_MEMORY_SYMBOL" in enclosing_cases(c):
            ok = True
    if ok:
        chk.ok(rule, "janet_deinit_block removes dead symbols from the cache")
    else:
        chk.violation(rule, "gc.c", "janet_deinit_block", "deinit", db.loc,
                      "a collected symbol is no longer removed from the cache: a later lookup returns freed memory")
    # a string-allocated pointer never becomes a symbol/keyword value
    STRING_MAKERS = ("janet_string", "janet_string_end", "janet_cstring", "janet_formatc", "janet_string_begin")
    for fn in prog.all_funcs():
        made = {}
        for x in fn.nodes:
            if x.k == "vardecl" and x.kids and strip_casts(x.kids[0]).k == "call" and strip_casts(x.kids[0]).callee in STRING_MAKERS:
                made[x.d.get("di")] = x
        if not made:
            continue
        for x in fn.nodes:
            if x.k == "ref" and x.d.get("di") in made and (x.in_macro("janet_wrap_symbol", "janet_wrap_keyword")):
                # the variable is only ever assigned from string makers (declaration identity, not name)
                others = [y for y in fn.nodes if y.k == "asg" and y.kids[0].k == "ref" and y.kids[0].d.get("di") == x.d.get("di")]
                if not others:
                    chk.instance(rule)
                    chk.violation(rule, fn.tu.name, fn.name, "uninterned:%s" % x.name, x.loc,
                                  "`%s` comes from a string allocator and is wrapped as a symbol/keyword without interning" % x.name)


BEGIN_END = {"janet_tuple_begin": "janet_tuple_end", "janet_struct_begin": "janet_struct_end", "janet_string_begin": "janet_string_end"}


def _beginend_rule(chk, prog):
    rule = "C03-BEGINEND"
    chk.rule(rule, "a value under construction (tuple/struct/string begin) is wrapped, returned or stored only after the matching _end")
    nsites = 0
    for fn in prog.all_funcs():
        begun = {}
        for n in fn.nodes:
            rhs = None
            if n.k == "vardecl" and n.kids:
                var, rhs = n.name, strip_casts(n.kids[0])
            elif n.k == "asg" and n.op == "=" and is_ref(n.kids[0]):
                var, rhs = n.kids[0].name, strip_casts(n.kids[1])
            if rhs is not None and rhs.k == "call" and rhs.callee in BEGIN_END:
                begun.setdefault(var, set()).add(rhs.callee)
        if not begun:
            continue
        chk.analysed(fn)
        for var, kinds in begun.items():
            nsites += 1
            chk.instance(rule)
            bad = None
            for n in fn.nodes:
                if n.k == "ref" and n.name == var:
                    # wrapped directly without _end
                    if n.in_macro("janet_wrap_tuple", "janet_wrap_struct", "janet_wrap_string", "janet_wrap_symbol", "janet_wrap_keyword"):
                        # is it inside a call to the _end function?
                        inside_end = any(a.k == "call" and a.callee in BEGIN_END.values() for a in n.ancestors())
                        if not inside_end:
                            bad = n
                    p = n.parent
                    if p is not None and p.k == "return" and not any(a.k == "call" for a in n.ancestors()):
                        # returning the raw under-construction pointer from a non-constructor helper
                        if "const" in (fn.ret or ""):
                            bad = n
            if bad is not None:
                chk.violation(rule, fn.tu.name, fn.name, var, bad.loc,
                              "`%s` from %s escapes (wrapped or returned as the immutable type) without %s: its cached hash "
                              "is never computed, so equality's hash shortcut and table lookup misbehave" % (
                                  var, sorted(kinds)[0], BEGIN_END[sorted(kinds)[0]]))
            else:
                chk.ok(rule, "%s: %s finished through _end before escaping" % (fn.name, var))
    if nsites < 30:
        raise AnalysisBroken("only %d begin sites found" % nsites)


def _negzero_rule(chk, prog):
    rule = "C03-NEGZERO"
    chk.rule(rule, "janet_hash adds 0.0 to a number before extracting its bits (-0.0 == 0.0 must hash alike)")
    fn = prog.need_func("janet_hash", "value.c")
    sw, names, cs = type_switch(fn)
    cm = case_map(sw)
    arm = [fn.nodes[nid] for nid, labs in cm.items() if "JANET_NUMBER" in labs]
    if not arm:
        raise AnalysisBroken("janet_hash: no JANET_NUMBER arm")
    chk.instance(rule)
    norm = [n for n in arm if (n.k == "asg" and n.op == "+=" and strip_casts(n.kids[1]).k == "flt" and strip_casts(n.kids[1]).d.get("fv") == 0.0)
            or (n.k == "bin" and n.op == "+" and strip_casts(n.kids[1]).k == "flt" and strip_casts(n.kids[1]).d.get("fv") == 0.0)]
    reads = [n for n in arm if n.k == "mem" and n.field in ("u", "u64") and n.d.get("rv")]
    if norm and reads and min(r.ln for r in reads) >= min(x.ln for x in norm):
        chk.ok(rule, "normalisation `%s` precedes the bit extraction" % norm[0].text())
    else:
        chk.violation(rule, "value.c", "janet_hash", "normalise", fn.loc,
                      "the NUMBER arm of janet_hash extracts the bits without first adding 0.0: (= 0.0 -0.0) holds but their hashes differ")


def _tombstone_rule(chk, prog):
    rule = "C03-TOMBSTONE"
    chk.rule(rule, "symcache.c never stores NULL into a cache slot: an occupied slot is vacated only by the tombstone")
    tu = prog.tus["symcache.c"]
    n = 0
    for fn in tu.funcs.values():
        for x in fn.nodes:
            if x.k != "asg" or x.op != "=":
                continue
            lhs = x.kids[0]
            slot = False
            if lhs.k == "sub" and is_mem(strip_casts(lhs.kids[0]), "cache", "JanetVM"):
                slot = True
            if lhs.k == "un" and lhs.op == "*" and "uint8_t **" in (strip_casts(lhs.kids[0]).t or "").replace("const ", ""):
                slot = True
            if not slot:
                continue
            n += 1
            chk.instance(rule)
            chk.analysed(fn)
            if strip_casts(x.kids[1]).v == 0:
                chk.violation(rule, "symcache.c", fn.name, "null-store", x.loc,
                              "`%s` empties a cache slot: open addressing stops probing at an empty slot, so every symbol "
                              "stored further along that probe run becomes unfindable and is interned a second time" % x.text())
            else:
                chk.ok(rule, "%s: %s" % (fn.name, x.text()[:50]))
    if n < 5:
        raise AnalysisBroken("only %d symcache slot stores found" % n)


def _canon_rule(chk, prog):
    """Struct equality/hash/compare walk the slot array, so two structs with the same pairs must have the same
    layout whatever the insertion order.  janet_struct_put_ext gets that from a sorted insertion: the decision
    'does the new pair go before the resident one' must be a strict total order on (distance, hash, key).  The
    shape is a chain of antisymmetric pairs  if (a < b) s = -1; else if (b < a) s = 1;  ending, when everything
    ties, in the total order on values (janet_compare).  A one-sided pair, or a last step that is not a total
    order (an equality test, say), makes the layout depend on insertion order for keys with equal hashes."""
    rule = "C03-CANON"
    chk.rule(rule, "struct insertion order is decided by antisymmetric comparisons ending in the total order janet_compare")
    fn = prog.need_func("janet_struct_put_ext")
    chk.analysed(fn)
    chains = []
    inner = set(n.kids[2].id for n in fn.nodes if n.k == "if" and len(n.kids) == 3 and n.kids[2].k == "if")
    for n in fn.nodes:
        if n.k != "if" or len(n.kids) != 3 or n.id in inner:
            continue
        steps, cur, var = [], n, None
        while cur is not None and cur.k == "if" and len(cur.kids) == 3 and cur.kids[1].k == "asg" and is_ref(cur.kids[1].kids[0]):
            a = cur.kids[1]
            if var is None:
                var = a.kids[0].name
            if a.kids[0].name != var or a.kids[1].v is None:
                break
            steps.append((cur.kids[0], a.kids[1].v, cur))
            cur = cur.kids[2]
        if len(steps) >= 2 and cur is not None and cur.k == "asg" and is_ref(cur.kids[0], var):
            chains.append((var, steps, cur))
    if len(chains) != 1:
        raise AnalysisBroken("janet_struct_put_ext: expected one ordering chain (if/else-if assigning one variable), found %d" % len(chains))
    var, steps, last = chains[0]
    if len(steps) % 2:
        chk.instance(rule)
        chk.violation(rule, "struct.c", fn.name, "chain", steps[-1][2].loc,
                      "the ordering chain for `%s` has an odd number of comparison steps: some `<` has no mirrored `>`" % var)
    for i in range(0, len(steps) - 1, 2):
        (c1, v1, n1), (c2, v2, n2) = steps[i], steps[i + 1]
        chk.instance(rule)
        ok = (c1.k == "bin" and c2.k == "bin" and c1.op == "<" and c2.op == "<"
              and c1.kids[0].text() == c2.kids[1].text() and c1.kids[1].text() == c2.kids[0].text()
              and v1 == -v2 and v1 != 0)
        if ok:
            chk.ok(rule, "%s: `%s` -> %d mirrored by `%s` -> %d" % (fn.name, c1.text(), v1, c2.text(), v2))
        else:
            chk.violation(rule, "struct.c", fn.name, "pair:%s" % c1.text(), n1.loc,
                          "ordering step `%s` -> %s is not mirrored by the next step `%s` -> %s: the insertion order is not antisymmetric"
                          % (c1.text(), v1, c2.text(), v2))
    # the swap: when the resident pair is displaced, the loop continues with THAT pair - its key, value and everything
    # cached about the key (hash, probe distance) must be replaced together
    keyp = fn.params[1]["n"] if len(fn.params) > 1 else "key"
    cached = set()
    for x in fn.nodes:
        if x.k == "vardecl" and x.kids and any(is_ref(y, keyp) for y in x.kids[0].walk()):
            cached.add(x.name)
    # locals derived from those (index from hash ...) that the ordering chain actually reads
    chain_reads = set(y.name for c, _, _ in steps for y in c.walk() if y.k == "ref")
    cached = set(v for v in cached if v in chain_reads)
    swaps = [x for x in fn.nodes if x.k == "asg" and x.op == "=" and is_ref(x.kids[0], keyp)]
    if not swaps or not cached:
        raise AnalysisBroken("janet_struct_put_ext: swap of the inserted key (%d) / cached key attributes (%s) not found" % (len(swaps), sorted(cached)))
    for sw in swaps:
        blk = sw.parent
        while blk is not None and blk.k != "compound":
            blk = blk.parent
        assigned = set(y.kids[0].name for y in (blk.walk() if blk is not None else []) if y.k == "asg" and is_ref(y.kids[0]))
        for v in sorted(cached):
            chk.instance(rule)
            if v in assigned:
                chk.ok(rule, "%s: swap replaces `%s` together with the key" % (fn.name, v))
            else:
                chk.violation(rule, "struct.c", fn.name, "swap:%s" % v, sw.loc,
                              "the displaced pair becomes the one being inserted (`%s`), but `%s`, which caches a property of the "
                              "key and decides the ordering of the following slots, keeps the old key's value: runs are no longer "
                              "sorted and equal structs get different layouts" % (sw.text(), v))
    chk.instance(rule)
    rhs = strip_casts(last.kids[1])
    params = [p for p in fn.params]
    if rhs.k == "call" and rhs.callee == "janet_compare" and len(rhs.args) == 2 \
            and sorted(("key" if is_ref(strip_casts(a)) else "slot" if strip_casts(a).k == "mem" and strip_casts(a).field == "key" else "?")
                       for a in rhs.args) == ["key", "slot"]:
        chk.ok(rule, "%s: full tie falls back to janet_compare(%s)" % (fn.name, ", ".join(a.text() for a in rhs.args)))
    else:
        chk.violation(rule, "struct.c", fn.name, "tiebreak", last.loc,
                      "when distance and hash tie, `%s` is set from `%s`, not from janet_compare(new key, resident key): distinct keys with "
                      "equal hashes are laid out in insertion order, so equal structs stop being equal" % (var, rhs.text()[:80]))


def _sealed_rule(chk, prog):
    """janet_struct_end computes the struct's stored hash from its pairs AND its prototype; equality compares stored
    hashes first.  So everything that feeds the identity must be in place before the struct is finished: a store through
    janet_struct_proto / janet_struct_hash / janet_struct_length on a finished struct (a `JanetStruct`, i.e. const
    pointer, or the result of janet_struct_end / janet_table_to_struct) makes two structs with the same content and
    prototype unequal."""
    rule = "C03-SEALED"
    chk.rule(rule, "no identity-bearing head field of a struct is written after the struct was finished (its hash computed)")
    HEAD = ("janet_struct_proto", "janet_struct_hash", "janet_struct_length", "janet_struct_capacity")
    FINISHERS = ("janet_struct_end", "janet_table_to_struct")
    n = 0
    for fn in prog.all_funcs():
        writes = [x for x in fn.nodes if x.k in ("asg",) and any(x.kids[0].in_macro(m) for m in HEAD)]
        writes += [x for x in fn.nodes if x.k == "un" and x.op in ("pre++", "post++", "pre--", "post--") and any(x.kids[0].in_macro(m) for m in HEAD)]
        if not writes:
            continue
        chk.analysed(fn)

        def transfer(st, x):
            tgt = rhs = None
            if x.k == "vardecl" and x.kids:
                tgt, rhs = x.name, strip_casts(x.kids[0])
            elif x.k == "asg" and x.op == "=" and is_ref(x.kids[0]):
                tgt, rhs = x.kids[0].name, strip_casts(x.kids[1])
            if tgt:
                st = st - {tgt}
                if rhs is not None and rhs.k == "call" and rhs.callee in FINISHERS:
                    st = st | {tgt}
            return st
        IN, OUT = flow.forward(fn, frozenset(), transfer, lambda a, b: a | b)
        for x, st in flow.states_at(fn, IN, transfer):
            if x not in writes:
                continue
            n += 1
            chk.instance(rule)
            bases = [y for y in x.kids[0].walk() if y.k == "ref" and y.d.get("d") in ("var", "parm")]
            bad = None
            for b in bases:
                t = (b.t or "")
                if b.name in st or t.startswith("const JanetKV") or t.startswith("JanetStruct"):
                    bad = b
            # inside janet_struct_end itself the head is being finalised
            if bad is not None and fn.name not in ("janet_struct_end",):
                chk.violation(rule, fn.tu.name, fn.name, "%s:%s" % ([m for m in HEAD if x.kids[0].in_macro(m)][0], bad.name), x.loc,
                              "`%s` changes an identity-bearing field of `%s` after the struct was finished: its stored hash was "
                              "computed without this value, so it is unequal to (and hashes differently from) the same struct built the "
                              "other way round" % (x.text()[:70], bad.name))
            else:
                chk.ok(rule, "%s: %s on a struct still under construction" % (fn.name, x.text()[:50]))
    chk.floor(rule, 5, n)


def _structfill_rule(chk, prog):
    """A struct's slot array is canonical only because every pair goes in through janet_struct_put's sorted insertion.
    Outside struct.c nobody may write the slots of a struct under construction directly (element stores, memcpy of a
    table's buckets): a table's layout depends on insertion history, a struct's must not."""
    rule = "C03-STRUCTFILL"
    chk.rule(rule, "storage obtained from janet_struct_begin is filled only through janet_struct_put outside struct.c")
    n = 0
    for fn in prog.all_funcs():
        if fn.tu.name == "struct.c":
            continue
        vars_ = set()
        for x in fn.nodes:
            tgt = rhs = None
            if x.k == "vardecl" and x.kids:
                tgt, rhs = x.name, strip_casts(x.kids[0])
            elif x.k == "asg" and x.op == "=" and is_ref(x.kids[0]):
                tgt, rhs = x.kids[0].name, strip_casts(x.kids[1])
            if tgt and rhs is not None and rhs.k == "call" and rhs.callee == "janet_struct_begin":
                vars_.add(tgt)
        if not vars_:
            continue
        chk.analysed(fn)
        for v in sorted(vars_):
            n += 1
            chk.instance(rule)
            bad = None
            for x in fn.nodes:
                if x.k == "asg" and x.kids[0].k in ("sub", "mem"):
                    base = x.kids[0]
                    while base.k in ("sub", "mem", "cast") or (base.k == "un" and base.op == "*"):
                        base = base.kids[0]
                    # header accessors (janet_struct_proto ...) go through a cast of the pointer, not through the slots
                    if is_ref(base, v) and not any(x.kids[0].in_macro(m) for m in ("janet_struct_proto", "janet_struct_hash", "janet_struct_length", "janet_struct_capacity", "janet_struct_head")):
                        bad = x
                if x.k == "call" and x.callee in ("memcpy", "memmove", "safe_memcpy", "memset") and x.args and \
                        any(is_ref(y, v) for y in x.args[0].walk()):
                    bad = x
            if bad is not None:
                chk.violation(rule, fn.tu.name, fn.name, "raw-fill:%s" % v, bad.loc,
                              "`%s` writes the slots of a struct under construction directly instead of through janet_struct_put: the "
                              "layout then reflects the source's order, and structs with equal content stop being equal" % bad.text()[:70])
            else:
                chk.ok(rule, "%s: `%s` filled through janet_struct_put only" % (fn.name, v))
    chk.floor(rule, 6, n)


def run(chk):
    prog = Program.load("default")
    _tombstone_rule(chk, prog)
    _partition_rule(chk, prog)
    _abstract_rule(chk, prog)
    _intern_rule(chk, prog)
    _beginend_rule(chk, prog)
    _negzero_rule(chk, prog)
    _canon_rule(chk, prog)
    _sealed_rule(chk, prog)
    _structfill_rule(chk, prog)
    _hashlast_rule(chk, prog)
    _eqlen_rule(chk, prog)
    _memeqlen_rule(chk, prog)
    _lockstep_rule(chk, prog)
    _gensymorder_rule(chk, prog)
    _cmplen_rule(chk, prog)
    _elemhash_rule(chk, prog)
    _cmpoperands_rule(chk, prog)


def _hashlast_rule(chk, prog):
    """The stored hash of a string / tuple / struct is computed once, by its `end` function, from what the object
    holds at that moment - for a struct that includes the prototype.  Anything stored into the object after that
    computation is not in the hash: two equal values then carry different hashes and stop being equal / finding
    each other as keys."""
    rule = "C03-HASHLAST"
    chk.rule(rule, "the finishing functions compute the stored hash last: nothing that feeds it is stored into the object afterwards")
    HASHM = ("janet_struct_hash", "janet_tuple_hash", "janet_string_hash")
    FEED = ("janet_struct_proto", "janet_struct_length", "janet_struct_capacity", "janet_tuple_length", "janet_string_length")
    n = 0
    for fn in prog.all_funcs():
        hs = []
        for x in fn.nodes:
            if x.k == "asg" and x.op == "=" and (any(x.kids[0].in_macro(m) for m in HASHM) or (x.kids[0].k == "mem" and x.kids[0].field == "hash")):
                calls = [c for c in x.kids[1].walk() if c.k == "call" and (c.callee or "").endswith("calchash")]
                if not calls:
                    # the hash may be computed into a local first: `int32_t h = calchash(obj, ...); ...; hash(obj) = h;`
                    r = strip_casts(x.kids[1])
                    if is_ref(r):
                        for d in fn.nodes:
                            if d.k == "vardecl" and d.name == r.name and d.kids:
                                calls = [c for c in d.kids[0].walk() if c.k == "call" and (c.callee or "").endswith("calchash")]
                if not calls:
                    continue
                obj = [r.name for r in x.kids[0].walk() if r.k == "ref" and r.d.get("d") in ("var", "parm")]
                src = [r.name for r in calls[0].args[0].walk() if r.k == "ref"] if calls[0].args else []
                if obj and obj[0] in src:
                    hs.append((x, obj[0]))
        if not hs:
            continue
        chk.analysed(fn)
        ids = {x.id: o for x, o in hs}

        def transfer(st, x):
            if x.id in ids:
                return st | frozenset([ids[x.id]])
            # the object variable is re-pointed (struct_end rebuilds into a new struct before hashing)
            if x.k == "asg" and x.op == "=" and is_ref(x.kids[0]) and x.kids[0].name in st:
                return st - frozenset([x.kids[0].name])
            return st
        IN, OUT = flow.forward(fn, frozenset(), transfer, lambda a, b: a | b)
        bad = None
        for x, st in flow.states_at(fn, IN, transfer):
            if not st or x.k != "asg" or x.id in ids:
                continue
            lhs = x.kids[0]
            base = [r.name for r in lhs.walk() if r.k == "ref" and r.d.get("d") in ("var", "parm")]
            if not base or base[0] not in st:
                continue
            if any(lhs.in_macro(m) for m in HASHM) or (lhs.k == "mem" and lhs.field == "hash"):
                continue      # folding more into the hash itself
            if any(lhs.in_macro(m) for m in FEED) or lhs.k in ("sub", "mem", "un"):
                bad = x
        for x, o in hs:
            n += 1
            chk.instance(rule)
            if bad is not None:
                chk.violation(rule, fn.tu.name, fn.name, "after-hash:%s" % o, bad.loc,
                              "`%s` stores into `%s` after its hash was computed (`%s`): the stored hash does not cover the value, so "
                              "equal objects end up with different hashes" % (bad.text()[:60], o, x.text()[:50]))
            else:
                chk.ok(rule, "%s: nothing stored into `%s` after `%s`" % (fn.name, o, x.text()[:40]))
    chk.floor(rule, 3, n)


def _eqlen_rule(chk, prog):
    """janet_equals walks tuples and structs pairwise through the traversal stack in its non-ordering mode, in which
    traversal_next stops at the shorter one without reporting the length difference - so lengths must have been
    compared before the pair is pushed."""
    rule = "C03-EQLEN"
    chk.rule(rule, "janet_equals pushes a tuple / struct pair for pairwise traversal only after their lengths compared equal")
    fn = prog.need_func("janet_equals", "value.c")
    chk.analysed(fn)
    pushes = [x for x in fn.nodes if x.k == "call" and x.callee == "push_traversal_node"]
    if len(pushes) < 2:
        raise AnalysisBroken("janet_equals: expected two push_traversal_node sites, found %d" % len(pushes))
    IN, T = flow.condition_facts(fn)
    for x, S in flow.states_at(fn, IN, T):
        if x not in pushes:
            continue
        chk.instance(rule)
        ok = bool(S)
        for ps in S:
            good = False
            for (op, l, r, toks, ln, rn) in ps:
                if op == "==" and ln is not None and rn is not None and \
                        any(m.endswith("_length") for m in ln.macro_names()) and any(m.endswith("_length") for m in rn.macro_names()):
                    good = True
            if not good:
                ok = False
        kind = "tuple" if any("tuple" in m for a in x.args for y in a.walk() for m in y.macro_names()) else "struct"
        if ok:
            chk.ok(rule, "janet_equals: %s pair pushed only with equal lengths" % kind)
        else:
            chk.violation(rule, "value.c", "janet_equals", "length:%s" % kind, x.loc,
                          "`%s` is reached on a path that has not compared the two lengths: the pairwise walk ends at the shorter "
                          "value and a %s equals any longer one that starts with it (given equal stored hashes)" % (x.text()[:60], kind))


def _memeqlen_rule(chk, prog):
    """`memcmp(a, b, n) == 0` says `equal` only about the first n bytes.  Where it decides equality (string equality
    behind =, table and struct lookup and the symbol cache; prefix / suffix tests; PEG literals) the count must have
    been related to the length of the other operand on the path - otherwise a string equals every longer string that
    starts with it and shares its 32-bit hash, and = stops being symmetric."""
    rule = "C03-MEMEQLEN"
    chk.rule(rule, "an equality decided by memcmp(a, b, n) is reached only on paths that compared n with the other operand's length")
    n = 0
    for tun in ("string.c", "peg.c", "value.c", "symcache.c", "buffer.c", "struct.c", "table.c"):
        tu = prog.tus.get(tun)
        if tu is None:
            continue
        for fn in tu.funcs.values():
            sites = []
            for c in fn.calls("memcmp"):
                p = c.parent
                while p is not None and p.k in ("cast", "paren"):
                    p = p.parent
                eq = p is not None and ((p.k == "un" and p.op == "!") or (p.k == "bin" and p.op in ("==", "!=")) or
                                        (p.k in ("cond", "if") and strip_casts(p.kids[0]) is c))
                if eq and len(c.args) == 3:
                    sites.append(c)
            if not sites:
                continue
            chk.analysed(fn)
            IN, T = flow.condition_facts(fn)
            res = {}
            for x, S in flow.states_at(fn, IN, T):
                for c in sites:
                    if x is c:
                        ln_ = strip_casts(c.args[2])
                        names = set(r.name for r in ln_.walk() if r.k == "ref")
                        txt = ln_.text()
                        def related(ps):
                            for (op, l, r, toks, a, b) in ps:
                                if op in ("==", "<=", ">=", "<", ">") and r and ((names and names <= set(toks) and (txt in l or txt in r)) ):
                                    return True
                            return False
                        res[id(c)] = bool(S) and all(related(ps) for ps in S)
            for c in sites:
                n += 1
                chk.instance(rule)
                if res.get(id(c)):
                    chk.ok(rule, "%s: `%s` after the count was compared with the other length" % (fn.name, c.text()[:50]))
                else:
                    chk.violation(rule, tun, fn.name, "memcmp:" + strip_casts(c.args[2]).text().replace(" ", ""), c.loc,
                                  "`%s` decides equality but `%s` was not compared with the other operand's length on every path to it: "
                                  "a value equals any longer one that starts with it (for hashed strings: given equal 32-bit hashes), "
                                  "and the comparison is not symmetric" % (c.text()[:60], strip_casts(c.args[2]).text()))
    chk.floor(rule, 4, n)


def _lockstep_rule(chk, prog):
    """janet_equals / janet_compare walk two structs bucket by bucket in lockstep.  A step that decides what to skip by
    looking at ONE of the two (say, buckets that are empty on the left) makes the answer depend on the argument order:
    for two structs with colliding hashes but different layouts (cmp x y) and (cmp y x) are both -1."""
    rule = "C03-LOCKSTEP"
    chk.rule(rule, "the pairwise walk over two structs never advances on a test that reads only one of the two")
    fn = prog.need_func("traversal_next", "value.c")
    chk.analysed(fn)
    heads = [x.name for x in fn.nodes if x.k == "vardecl" and "JanetStructHead" in (x.t or "")]
    if len(heads) != 2:
        raise AnalysisBroken("traversal_next: expected two struct-head locals, found %s" % heads)
    a, b = heads
    n = 0
    for x in fn.nodes:
        cond = None
        if x.k in ("if", "while"):
            cond = x.kids[0]
        elif x.k == "for":
            cond = x.kids[1]
        if cond is None:
            continue
        reads_a = any(y.k == "mem" and y.field == "data" and strip_casts(y.kids[0]).k == "ref" and strip_casts(y.kids[0]).name == a for y in cond.walk())
        reads_b = any(y.k == "mem" and y.field == "data" and strip_casts(y.kids[0]).k == "ref" and strip_casts(y.kids[0]).name == b for y in cond.walk())
        if not (reads_a or reads_b):
            continue
        n += 1
        chk.instance(rule)
        if reads_a and reads_b:
            chk.ok(rule, "traversal_next: `%s` looks at both structs" % cond.text()[:50])
        else:
            chk.violation(rule, "value.c", "traversal_next", "one-sided", cond.loc,
                          "`%s` decides how the walk over two structs continues from the buckets of `%s` alone: what is compared "
                          "then depends on which struct is the left operand, and the ordering is no longer antisymmetric" % (
                              cond.text()[:60], a if reads_a else b))
    chk.note("C03-LOCKSTEP: %d bucket tests in traversal_next" % n)
    chk.floor(rule, 0, n)


def _gensymorder_rule(chk, prog):
    """gensym probes the symbol cache with the hash of the current counter text and then copies that text into the new
    symbol.  If the counter moves between the two, the symbol's bytes and its stored hash / cache slot belong to
    different names: re-interning the same spelling creates a second symbol that is not = to the first."""
    rule = "C03-GENSYMORDER"
    chk.rule(rule, "janet_symbol_gen does not advance the counter between hashing the name and copying it into the symbol")
    fn = prog.need_func("janet_symbol_gen", "symcache.c")
    chk.analysed(fn)
    copies = [c for c in fn.calls("memcpy") if any(y.k == "mem" and y.field == "gensym_counter" for y in c.args[1].walk())]
    if not copies:
        raise AnalysisBroken("janet_symbol_gen: the copy of gensym_counter into the new symbol was not found")

    def transfer(st, x):
        if x.k == "call" and x.callee == "inc_gensym":
            return st | {"moved"}
        if x.k == "call" and x.callee in ("janet_string_calchash",) and any(y.k == "mem" and y.field == "gensym_counter" for y in x.walk()):
            return st - {"moved"}
        if x.k == "call" and any(y.k == "un" and y.op == "&" and is_ref(strip_casts(y.kids[0])) for a in x.args for y in a.walk()):
            # an out-parameter is written: what was known about those locals is gone
            names = set(strip_casts(y.kids[0]).name for a in x.args for y in a.walk() if y.k == "un" and y.op == "&" and is_ref(strip_casts(y.kids[0])))
            return frozenset(t for t in st if not (t.startswith("true:") and t[5:] in names))
        return st
    def edge(st, blk, succ, cond, truth):
        # `(inc_gensym(), 1)` is always true: its false edge does not exist
        c = strip_casts(cond) if cond is not None else None
        while c is not None and c.k == "paren":
            c = strip_casts(c.kids[0])
        if c is not None and c.k == "bin" and c.op == ",":
            c = strip_casts(c.kids[-1])
        if c is not None and c.k == "int" and ((c.v != 0) != bool(truth)):
            return None
        # the same local cannot test true and then false on one path without having been written in between
        c = strip_casts(cond) if cond is not None else None
        if c is not None and is_ref(c):
            if truth:
                return st | {"true:" + c.name}
            if ("true:" + c.name) in st:
                return None
        return st
    IN, OUT, T = flow.forward_paths(fn, frozenset(), transfer, edge)
    for x, S in flow.states_at(fn, IN, T):
        if x in copies:
            chk.instance(rule)
            if any("moved" in ps for ps in S):
                chk.violation(rule, "symcache.c", "janet_symbol_gen", "counter-moved", x.loc,
                              "the counter can be advanced after the name was hashed and before `%s` copies it: the new symbol gets the "
                              "bytes of the next name with the hash and cache slot of this one, so (= g (symbol (string g))) is false" % x.text()[:50])
            else:
                chk.ok(rule, "janet_symbol_gen: the name that was hashed is the name that is copied")
    chk.floor(rule, 1, len(copies))


def _cmplen_rule(chk, prog):
    """Ordering two byte strings by memcmp over their common length decides nothing when one is a prefix of the other:
    then the shorter one comes first, and only equal lengths mean equal.  The terminating 0 byte cannot stand in for
    that comparison - strings may contain 0 bytes ("ab" against "ab\\0").  So wherever such a function answers 0 it has
    compared the two lengths for equality."""
    rule = "C03-CMPLEN"
    chk.rule(rule, "a comparison function that memcmp's the common prefix of two byte strings returns 0 only where the two lengths were found equal")
    n = 0
    for fn in prog.all_funcs():
        if fn.tu.name not in ("string.c", "value.c", "util.c", "buffer.c"):
            continue
        mins = [x for x in fn.nodes if x.k == "vardecl" and x.kids and strip_casts(x.kids[0]).k == "cond"
                and len(set(y.name for y in x.kids[0].walk() if y.k == "ref")) == 2]
        if not mins:
            continue
        lens = set(y.name for y in mins[0].kids[0].walk() if y.k == "ref")
        mc = [c for c in fn.calls("memcmp") if any(is_ref(y) and y.name == mins[0].name for a in c.args for y in a.walk())]
        if not mc or "int" not in (fn.ret or "int"):
            continue
        rets = [x for x in fn.nodes if x.k == "return" and x.kids and strip_casts(x.kids[0]).v == 0 and strip_casts(x.kids[0]).k != "cond"]
        n += 1
        chk.instance(rule)
        chk.analysed(fn)
        IN, T = flow.condition_facts(fn)
        bad = None
        for x, S in flow.states_at(fn, IN, T):
            if x in rets:
                for ps in S:
                    eq = any(op in ("==",) and set(toks) >= lens for (op, l, r, toks, ln, rn) in ps)
                    if not eq:
                        bad = x
        if not rets:
            chk.ok(rule, "%s: never answers 0 by a literal return" % fn.name)
        elif bad is None:
            chk.ok(rule, "%s: `return 0` only where %s were found equal" % (fn.name, " and ".join(sorted(lens))))
        else:
            chk.violation(rule, fn.tu.name, fn.name, "return0", bad.loc,
                          "%s answers 0 at %s on a path that has not compared %s for equality: a string and a longer one that continues "
                          "with a 0 byte (\"ab\" and \"ab\\0\") compare as equal although = tells them apart, and sorted is no longer strictly "
                          "ascending" % (fn.name, bad.loc, " and ".join(sorted(lens))))
    chk.floor(rule, 1, n)


def _elemhash_rule(chk, prog):
    """The hash of a tuple or struct is mixed from the hashes of its elements, and two containers are equal exactly
    when their elements are: so an element has to be hashed by janet_hash itself, the one function that agrees with =
    (it folds -0.0 onto 0.0, hashes strings by content, ...).  A private fast path for "plain numbers" that leaves
    out one of those normalisations gives [0] and [-0] different hashes while 0 = -0."""
    rule = "C03-ELEMHASH"
    chk.rule(rule, "a container hash mixes in only janet_hash(element): every value fed to janet_hash_mix by janet_array_calchash / janet_kv_calchash comes straight from janet_hash")
    tu = prog.tus["util.c"]
    n = 0
    for name in ("janet_array_calchash", "janet_kv_calchash"):
        fn = tu.funcs.get(name)
        if fn is None:
            raise AnalysisBroken("util.c: %s not found" % name)
        chk.analysed(fn)
        for c in fn.calls("janet_hash_mix"):
            n += 1
            chk.instance(rule)
            a = strip_casts(c.args[1])
            helper = tu.funcs.get(a.callee) if a.k == "call" and a.callee else None
            normalises = helper is not None and any(
                x.k == "asg" and x.op == "+=" and strip_casts(x.kids[1]).v == 0 and "double" in (x.kids[0].t or "double") for x in helper.nodes)
            if a.k == "call" and a.callee == "janet_hash":
                chk.ok(rule, "%s mixes janet_hash(%s)" % (name, a.args[0].text()[:20]))
            elif normalises and helper.calls("janet_hash"):
                chk.ok(rule, "%s mixes %s(...), which folds -0.0 itself and leaves the rest to janet_hash" % (name, a.callee))
            else:
                chk.violation(rule, "util.c", name, "mix:" + a.text()[:24].replace(" ", ""), c.loc,
                              "%s mixes `%s` into the container's hash instead of janet_hash of the element: unless that helper repeats every "
                              "normalisation of janet_hash (-0.0 onto 0.0), containers that are equal by = get different hashes - (= [0] [-0]) "
                              "turns false and a table keyed by one is not found through the other" % (name, a.text()[:40]))
    chk.floor(rule, 3, n)


def _cmpoperands_rule(chk, prog):
    """(< x y) is janet_compare(x, y) < 0.  The interpreter's comparison handlers have a fast path for two numbers
    and hand everything else to janet_compare; the operands must go there in the order the instruction names them -
    first operand (field B) first.  With the operands swapped the slow path answers the mirrored question: (< nil 5)
    becomes true while (cmp nil 5) is 1 and (<= nil 5) stays false."""
    from jv.vm import VMHandlers
    rule = "C03-CMPOPERANDS"
    chk.rule(rule, "every janet_compare call of the interpreter's comparison handlers passes the instruction's first operand (B) first and its second operand (C or the immediate) second")
    full = Program.load("default", units=["vm.c"])
    vm = VMHandlers(full)
    fn = vm.fn

    def origin(e):
        """'B' / 'C' / 'imm' / None for an argument expression"""
        e = strip_casts(e)
        names = set()
        for y in e.walk():
            names.update(m.rstrip("@") for m in y.macro_names())
        if is_ref(e):
            for d in fn.nodes:
                if d.k == "vardecl" and d.name == e.name and d.kids and vm.handler_of(d) == vm.handler_of(e):
                    for y in d.kids[0].walk():
                        names.update(m.rstrip("@") for m in y.macro_names())
        if "CS" in names:
            return "imm"
        if "B" in names and "C" not in names:
            return "B"
        if "C" in names and "B" not in names:
            return "C"
        return None
    n = 0
    for c in fn.nodes:
        if c.k != "call" or c.callee != "janet_compare" or len(c.args) != 2:
            continue
        h = (vm.handler_of(c) or "").replace("label_", "")
        if not any(t in h for t in ("LESS", "GREATER")):
            continue
        a, b = origin(c.args[0]), origin(c.args[1])
        if a is None or b is None:
            continue
        n += 1
        chk.instance(rule)
        if a == "B" and b in ("C", "imm"):
            chk.ok(rule, "%s: janet_compare(B, %s)" % (h, b))
        else:
            chk.violation(rule, "vm.c", "run_vm", "%s:%s,%s" % (h, a, b), c.loc,
                          "%s passes its operands to janet_compare as (%s, %s): the slow path (an operand that is not a number) answers the "
                          "mirrored comparison, so < and > disagree with cmp, with <= / >= and with the same comparison against a variable" % (h, a, b))
    chk.floor(rule, 6, n)
