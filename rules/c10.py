"""C10 - loading untrusted bytes or bytecode cannot corrupt memory: structural clauses.

C10-PEGVERIFY  the PEG image verifier reads operands only inside the bytecode, and checks every operand the
               matcher later uses as an index, per opcode
C10-VERIFY     a function definition from untrusted bytes / the assembler is used only after janet_verify accepted it
C10-OPERANDS   every operand field the interpreter uses as an index is bounded by the verifier for that opcode's
               instruction type, or by a run-time assertion in the handler
C10-EOS        every read of the unmarshal cursor is preceded by an end-of-input check
C10-BOXING     doubles assembled from input bytes are boxed with the nan-safe constructor
C10-FIBERIMG   a fiber image's frame fields are stored only after its structural checks
"""
from jv import flow
from jv.facts import Program, AnalysisBroken
from jv.util import is_ref, is_mem, strip_casts, enclosing_cases, switch_cases, case_name
from jv.linear import inequality, linear

EXPLANATION = (
    "Static rules on the loaders: (PEGVERIFY) linear-inequality dataflow proving each operand read in the PEG image "
    "verifier lies inside the bytecode array, plus per-opcode agreement between the operands the matcher uses as "
    "indices and the operands the verifier range-checks; (VERIFY) must-pass-through janet_verify before a funcdef "
    "escapes; (OPERANDS) per-instruction-type agreement between bytecode.c's verifier and run_vm's operand uses; "
    "(EOS) end-of-input dominance over cursor dereferences in marsh.c; (BOXING) constructor query; (FIBERIMG) "
    "store-after-check ordering in unmarshal_one_fiber.  Decides that the checks exist, dominate and cover the "
    "same operands; it does not decide that their arithmetic is sufficient for every image.")
ASSUMPTIONS = ["default Linux configuration", "sufficiency of the checked bounds is value-level and not decided"]


# ------------------------------------------------------------------------------------------------
def _peg_bounds(chk, prog):
    rule = "C10-PEGVERIFY"
    chk.rule(rule, "PEG image verifier: operand reads inside the bytecode; indices used by the matcher are range-checked per opcode")
    tu = prog.tus["peg.c"]
    fn = prog.need_func("peg_unmarshal", tu)
    chk.analysed(fn)
    # locate the verifier loop: the switch on the instruction word
    # names: index var I (stepped by +=), length var N (compared in the while), alias R = bytecode + I
    alias = {}
    for n in fn.nodes:
        if n.k == "vardecl" and n.kids:
            r = strip_casts(n.kids[0])
            if r.k == "bin" and r.op == "+" and "uint32_t" in (n.t or "") and "*" in (n.t or ""):
                lin = (strip_casts(r.kids[0]).text(), strip_casts(r.kids[1]).text())
                alias[n.name] = lin
    if not alias:
        raise AnalysisBroken("peg_unmarshal: no `rule = bytecode + i` alias found")
    R = BASE = I = N = None
    for r_, (base_, i_) in sorted(alias.items()):
        for n in fn.nodes:
            if n.k == "while" and n.kids[0].k == "bin" and n.kids[0].op == "<" and strip_casts(n.kids[0].kids[0]).text() == i_:
                R, BASE, I, N = r_, base_, i_, strip_casts(n.kids[0].kids[1]).text()
    if N is None:
        raise AnalysisBroken("peg_unmarshal: verifier loop `while (i < blen)` not found")

    # facts: ("k", c)  : I + c < N proven        ("len", var, off) : I + off + var <= N proven
    def transfer(facts, n):
        tgt = None
        if n.k == "asg" and is_ref(n.kids[0]):
            tgt = n.kids[0].name
        elif n.k == "un" and n.op in ("pre++", "post++", "pre--", "post--") and is_ref(n.kids[0]):
            tgt = n.kids[0].name
        elif n.k == "vardecl":
            tgt = n.name
        if tgt == I or tgt == N:
            return frozenset()
        if tgt is not None:
            return frozenset(f for f in facts if not (f[0] == "len" and f[1] == tgt))
        return facts

    def edge(facts, blk, succ, cond, truth):
        if cond is None:
            return facts
        c = flow.compare_of(cond, truth)
        if c is None or c[2] is None:
            return facts
        ineq = inequality(c[0], c[1], c[2])
        if ineq is None:
            return facts
        coefs, const, strict = ineq
        # want: I - N + k < 0
        if coefs.get(I) == 1 and coefs.get(N) == -1:
            rest = {k: v for k, v in coefs.items() if k not in (I, N)}
            k = const if strict else const - 1
            if not rest:
                return facts | frozenset([("k", k)])
            if len(rest) == 1 and list(rest.values())[0] == 1:
                var = list(rest.keys())[0]
                # I + const + var (<|<=) N   ->  for all j < var: I + const + j < N
                off = const if not strict else const + 1
                return facts | frozenset([("len", var, off)])
        return facts

    IN, OUT, T = flow.forward_paths(fn, frozenset(), transfer, edge)
    # loop index variables bounded by a len var:  for (j = 0; j < len; j++)
    loopbound = {}
    for n in fn.nodes:
        if n.k == "for" and n.kids[1] is not None and n.kids[1].k == "bin" and n.kids[1].op == "<":
            loopbound[strip_casts(n.kids[1].kids[0]).text()] = strip_casts(n.kids[1].kids[1]).text()
    reads = 0
    for b, S in IN.items():
        for n in fn.blocks[b].elems:
            if n.k == "sub" and is_ref(strip_casts(n.kids[0])) and strip_casts(n.kids[0]).name in (R, BASE):
                base = strip_casts(n.kids[0]).name
                idx = linear(n.kids[1])
                if idx is None:
                    S = T(S, n)
                    continue
                coefs, const = idx
                # writes to bytecode[i] in the fill loop are not verifier reads
                p = n.parent
                if p is not None and p.k == "asg" and p.kids[0] is n:
                    S = T(S, n)
                    continue
                need = None
                if base == R and not coefs:
                    need = ("k", const)
                elif base == BASE and coefs == {I: 1}:
                    need = ("k", const)
                elif base == R and len(coefs) == 1 and list(coefs.values())[0] == 1 and list(coefs.keys())[0] in loopbound:
                    need = ("len", loopbound[list(coefs.keys())[0]], const)
                if need is None:
                    S = T(S, n)
                    continue
                # only inside the verifier loop (after N is defined): skip the fill loops over peg->bytecode_len
                reads += 1
                chk.instance(rule)

                def sat(f):
                    if need[0] == "k":
                        return any(x[0] == "k" and x[1] >= need[1] for x in f)
                    return any(x[0] == "len" and x[1] == need[1] and x[2] >= need[2] for x in f)
                case = (enclosing_cases(n) or ["loop"])[0]
                if all(sat(f) for f in S):
                    chk.ok(rule, "verifier case %s: read %s inside the bytecode" % (case, n.text()))
                else:
                    chk.violation(rule, "peg.c", fn.name, "%s:%s" % (case, n.text()), n.loc,
                                  "operand read `%s` is not dominated by a test establishing %s + %s < %s: an image whose last "
                                  "instruction is truncated makes the verifier read past the bytecode" % (
                                      n.text(), I, n.kids[1].text(), N))
            S = T(S, n)
    if reads < 30:
        raise AnalysisBroken("peg_unmarshal: only %d operand reads analysed" % reads)
    return fn, R, N


def _peg_indices(chk, prog, vfn, R, N):
    rule = "C10-PEGVERIFY"
    tu = prog.tus["peg.c"]
    rfn = prog.need_func("peg_rule", tu)
    chk.analysed(rfn)
    # matcher: per case, operand positions used as bytecode / constant index
    used = {}
    aliases = {}
    for n in rfn.nodes:
        if n.k == "vardecl" and n.kids:
            r = strip_casts(n.kids[0])
            if r.k == "bin" and r.op == "+" and is_ref(strip_casts(r.kids[0]), "rule") and r.kids[1].v is not None:
                aliases[n.name] = r.kids[1].v

    def operand_of(e):
        """rule[c] -> ('c', c); args[x] with args = rule + k -> ('var', k)"""
        e = strip_casts(e)
        if e.k == "sub" and is_ref(strip_casts(e.kids[0])):
            nm = strip_casts(e.kids[0]).name
            if nm == "rule" and e.kids[1].v is not None:
                return ("c", e.kids[1].v)
            if nm in aliases:
                return ("var", aliases[nm])
        return None

    for n in rfn.nodes:
        kind = None
        if n.k == "bin" and n.op == "+" and is_mem(strip_casts(n.kids[0]), "bytecode", "PegState"):
            kind, opnd = "bytecode", operand_of(n.kids[1])
        elif n.k == "sub" and is_mem(strip_casts(n.kids[0]), "constants", "PegState"):
            kind, opnd = "constants", operand_of(n.kids[1])
        if kind and opnd:
            for case in enclosing_cases(n):
                used.setdefault(case, set()).add((kind, opnd))
    # verifier: per case, operands compared against blen (N) / clen
    C = None
    for n in vfn.nodes:
        if n.k == "vardecl" and n.kids and is_mem(strip_casts(n.kids[0]), "num_constants"):
            C = n.name
    checked = {}
    for n in vfn.nodes:
        if n.k == "bin" and n.op in (">=", ">", "<", "<="):
            for a, b in ((n.kids[0], n.kids[1]), (n.kids[1], n.kids[0])):
                a2, b2 = strip_casts(a), strip_casts(b)
                if a2.k == "sub" and is_ref(strip_casts(a2.kids[0]), R) and b2.k == "ref" and b2.name in (N, C):
                    kind = "bytecode" if b2.name == N else "constants"
                    lin = linear(a2.kids[1])
                    if lin is None:
                        continue
                    opnd = ("c", lin[1]) if not lin[0] else ("var", lin[1])
                    for case in enclosing_cases(n):
                        checked.setdefault(case, set()).add((kind, opnd))
    if len(used) < 20:
        raise AnalysisBroken("peg_rule: index uses found for only %d opcodes" % len(used))
    for case in sorted(used):
        for u in sorted(used[case]):
            chk.instance(rule)
            if u in checked.get(case, set()):
                chk.ok(rule, "%s: operand %s used as %s index is range-checked by the verifier" % (case, u[1], u[0]))
            else:
                chk.violation(rule, "peg.c", "peg_unmarshal", "%s:%s%s" % (case, u[0], u[1]), vfn.loc,
                              "peg_rule uses operand %s of %s as an index into %s, but the image verifier does not "
                              "compare that operand with the %s length for this opcode" % (u[1], case, u[0], u[0]))


def _verify_rule(chk, prog):
    rule = "C10-VERIFY"
    chk.rule(rule, "a funcdef built from bytes / assembly escapes only after janet_verify returned 0")
    for unit, fname, sink in (("marsh.c", "unmarshal_one_def", "out"), ("asm.c", "janet_asm1", "result")):
        fn = prog.need_func(fname, unit)
        chk.analysed(fn)

        def transfer(st, n):
            if n.k == "call" and n.callee and prog.is_noreturn(n.callee):
                return None
            return st

        def edge(st, blk, succ, cond, truth):
            if cond is None:
                return st
            c = flow.compare_of(cond, truth)
            if c is None:
                return st
            l = strip_casts(c[0])
            if l.k == "call" and l.callee == "janet_verify" and c[1] == "==" and (c[2] is None or strip_casts(c[2]).v == 0):
                return st | frozenset(["verified"])
            if l.k == "ref" and c[1] == "==" and (c[2] is None or strip_casts(c[2]).v == 0):
                # int verify_status = janet_verify(def); if (verify_status) error
                for x in fn.nodes:
                    if x.k == "vardecl" and x.name == l.name and x.kids and strip_casts(x.kids[0]).k == "call" \
                            and strip_casts(x.kids[0]).callee == "janet_verify":
                        return st | frozenset(["verified"])
                    if x.k == "asg" and is_ref(x.kids[0], l.name) and strip_casts(x.kids[1]).k == "call" \
                            and strip_casts(x.kids[1]).callee == "janet_verify":
                        return st | frozenset(["verified"])
            return st
        IN, OUT = flow.forward(fn, frozenset(), transfer, lambda a, b: a & b, edge=edge)
        n_esc = 0
        for b, st in IN.items():
            for n in fn.blocks[b].elems:
                esc = False
                if unit == "marsh.c" and n.k == "asg" and n.op == "=" and n.kids[0].k == "un" and n.kids[0].op == "*" \
                        and is_ref(strip_casts(n.kids[0].kids[0]), "out") and is_ref(strip_casts(n.kids[1]), "def"):
                    esc = True
                if unit == "asm.c" and n.k == "asg" and n.op == "=" and n.kids[0].k == "mem" and n.kids[0].field == "funcdef" \
                        and strip_casts(n.kids[1]).v != 0:
                    esc = True
                if esc:
                    n_esc += 1
                    chk.instance(rule)
                    if "verified" in st:
                        chk.ok(rule, "%s: `%s` only after janet_verify(def) == 0" % (fname, n.text()))
                    else:
                        chk.violation(rule, unit, fname, "escape", n.loc,
                                      "`%s` hands out the function definition on a path where janet_verify was not "
                                      "called or its result not tested" % n.text())
        if n_esc == 0:
            raise AnalysisBroken("%s: no escape point of the funcdef found" % fname)


def run(chk):
    prog = Program.load("default", units=["peg.c", "marsh.c", "asm.c", "bytecode.c", "vm.c"])
    vfn, R, N = _peg_bounds(chk, prog)
    _peg_indices(chk, prog, vfn, R, N)
    _verify_rule(chk, prog)
    _operands_rule(chk, prog)
    _eos_rule(chk, prog)
    _boxing_rule(chk, prog)
    _fiberimg_rule(chk, prog)
    _envvalid_rule(chk, prog)
    _envcount_rule(chk, prog)
    _framehdr_rule(chk, prog)
    _noabort_rule(chk, prog)
    _verifyenv_rule(chk, prog)
    _bitsetnull_rule(chk, prog)
    full = Program.load("default")
    _envuse_rule(chk, full)
    _symmap_rule(chk, full)
    _abstractinit_rule(chk, full)
    _frameroom_rule(chk, full)
    _defpublish_rule(chk, full)
    _funcdefnull_rule(chk, full)
    _refindex_rule(chk, full)
    _asmtuple_rule(chk, full)
    _envfiber_rule(chk, full)
    _fiberimage_rule(chk, full)
    _asmarity_rule(chk, full)
    _pegsigned_rule(chk, full)
    _envindex_rule(chk, full)
    _slotsign_rule(chk, full)


def _envvalid_rule(chk, prog):
    """An unmarshalled on-stack closure environment carries a negated, UNTRUSTED stack offset.  The interpreter and
    the collector index fiber->data with it, so janet_env_valid may promote it to a trusted (positive) offset only
    for a value that (1) equals a frame boundary found by walking the fiber's own frame chain, (2) whose frame names
    this very environment (else the frame's exit does not detach it and the environment dangles), (3) has a function
    and (4) whose slot count equals the environment's length (else reads run past the frame)."""
    rule = "C10-ENVVALID"
    chk.rule(rule, "janet_env_valid trusts an image-supplied stack offset only if it equals a walked frame boundary owned by this env with matching slot count")
    prog2 = Program.load("default", units=["fiber.c"])
    fn = prog2.need_func("janet_env_valid")
    chk.analysed(fn)
    # the frame-chain walker: a local assigned from fiber->frame and from frame->prevframe
    walkers = set()
    srcs = {}
    for x in fn.nodes:
        tgt = rhs = None
        if x.k == "vardecl" and x.kids:
            tgt, rhs = x.name, strip_casts(x.kids[0])
        elif x.k == "asg" and x.op == "=" and is_ref(x.kids[0]):
            tgt, rhs = x.kids[0].name, strip_casts(x.kids[1])
        if tgt and rhs is not None and rhs.k == "mem" and rhs.field in ("frame", "prevframe"):
            srcs.setdefault(tgt, set()).add(rhs.field)
    walkers = set(k for k, v in srcs.items() if v == {"frame", "prevframe"})
    if not walkers:
        raise AnalysisBroken("janet_env_valid: no frame-chain walker (local assigned from fiber->frame and frame->prevframe)")

    def toks(x):
        return set(r.name for r in x.walk() if r.k == "ref")

    def transfer(st, x):
        tgt = None
        if x.k == "asg" and is_ref(x.kids[0]):
            tgt = x.kids[0].name
        elif x.k == "vardecl":
            tgt = x.name
        if tgt:
            return frozenset(f for f in st if tgt not in f[3])
        return st

    def edge(st, blk, succ, cond, truth):
        c = flow.compare_of(cond, truth)
        if c is None:
            return st
        l, op, r = c
        if op == "==" and r is not None:
            return st | {("eq", strip_casts(l).text(), strip_casts(r).text(), frozenset(toks(l) | toks(r)))}
        if op == "!=" and (r is None or r.v == 0):
            return st | {("nz", strip_casts(l).text(), "", frozenset(toks(l)))}
        return st
    IN, OUT, T = flow.forward_paths(fn, frozenset(), transfer, edge=edge)
    sites = [x for x in fn.nodes if x.k == "asg" and x.op == "=" and x.kids[0].k == "mem" and x.kids[0].field == "offset"
             and x.kids[0].rec == "JanetFuncEnv" and x.kids[1].v is None]
    if len(sites) != 1:
        raise AnalysisBroken("janet_env_valid: expected one promotion store to env->offset, found %d" % len(sites))
    envp = fn.params[0]["n"]
    for x, S in flow.states_at(fn, IN, T):
        if x is not sites[0]:
            continue
        val = strip_casts(x.kids[1]).text()
        need = {
            "offset equals a frame boundary from the frame-chain walk":
                lambda ps: any(f[0] == "eq" and ((f[1] == val and f[2] in walkers) or (f[2] == val and f[1] in walkers)) for f in ps),
            "the frame at that boundary names this environment (frame->env == env)":
                lambda ps: any(f[0] == "eq" and ((f[1].endswith("->env") and f[2] == envp) or (f[2].endswith("->env") and f[1] == envp)) for f in ps),
            "the frame has a function":
                lambda ps: any(f[0] == "nz" and f[1].endswith("->func") for f in ps),
            "the frame's slot count equals the environment's length":
                lambda ps: any(f[0] == "eq" and (("slotcount" in f[1] and f[2].endswith("->length")) or ("slotcount" in f[2] and f[1].endswith("->length"))) for f in ps),
        }
        for what, pred in need.items():
            chk.instance(rule)
            if S and all(pred(ps) for ps in S):
                chk.ok(rule, "janet_env_valid: `%s` only where %s" % (x.text(), what))
            else:
                chk.violation(rule, "fiber.c", fn.name, what.split(" (")[0], x.loc,
                              "`%s` promotes the image-supplied offset to a trusted one on a path that has not established that %s; "
                              "the interpreter and the collector then index the fiber stack with an unvalidated offset" % (x.text(), what))
    chk.floor(rule, 4)


def _envcount_rule(chk, prog):
    """A JanetFunction is allocated with a trailing array of N environment pointers, but everybody who walks that array
    - the interpreter's upvalue instructions, the collector, the marshaller - takes the count from
    def->environments_length.  So wherever a function object gets its definition, N must be that definition's count:
    derived from it, or compared equal to it (and the function rejected otherwise).  An image that says "0
    environments" for a definition that needs one makes the collector read past the object."""
    rule = "C10-ENVCOUNT"
    chk.rule(rule, "a function object is given a definition only where its environment array length equals def->environments_length")
    full = Program.load("default", units=["marsh.c", "vm.c", "bytecode.c"])
    n = 0
    for fn in full.all_funcs():
        sites = [x for x in fn.nodes if x.k == "asg" and x.op == "=" and x.kids[0].k == "mem" and x.kids[0].field == "def"
                 and x.kids[0].rec == "JanetFunction" and strip_casts(x.kids[1]).v != 0]
        if not sites:
            continue
        chk.analysed(fn)
        for site in sites:
            n += 1
            chk.instance(rule)
            fvar = strip_casts(site.kids[0].kids[0]).text()
            dvar = strip_casts(site.kids[1]).text()
            # allocation of the function object and its count expression
            count = None
            for x in fn.nodes:
                tgt = rhs = None
                if x.k == "vardecl" and x.kids:
                    tgt, rhs = x.name, strip_casts(x.kids[0])
                elif x.k == "asg" and x.op == "=" and is_ref(x.kids[0]):
                    tgt, rhs = x.kids[0].name, strip_casts(x.kids[1])
                if tgt == fvar and rhs is not None and rhs.k == "call" and rhs.callee == "janet_gcalloc" and len(rhs.args) > 1:
                    size = rhs.args[1]
                    muls = [y for y in size.walk() if y.k == "bin" and y.op == "*"]
                    count = "0"
                    for m in muls:
                        for k in m.kids:
                            k = strip_casts(k)
                            if k.k in ("ref", "mem"):
                                count = k.text()
            if count is None:
                raise AnalysisBroken("%s: allocation of `%s` not found" % (fn.name, fvar))
            want = dvar + "->environments_length"

            def derived():
                for x in fn.nodes:
                    tgt = rhs = None
                    if x.k == "vardecl" and x.kids:
                        tgt, rhs = x.name, strip_casts(x.kids[0])
                    elif x.k == "asg" and x.op == "=" and is_ref(x.kids[0]):
                        tgt, rhs = x.kids[0].name, strip_casts(x.kids[1])
                    if tgt == count and rhs is not None and rhs.text().replace(" ", "") == want:
                        return True
                return False
            if derived():
                chk.ok(rule, "%s: `%s` sized by %s" % (fn.name, fvar, want))
                continue
            # otherwise: every path from the assignment to a return must establish count == def->environments_length
            def transfer(st, x):
                if x is site:
                    return st | {"assigned"}
                return st

            def edge(st, blk, succ, cond, truth):
                c = flow.compare_of(cond, truth)
                if c is None or c[2] is None or c[1] != "==":
                    return st
                a, b = strip_casts(c[0]).text().replace(" ", ""), strip_casts(c[2]).text().replace(" ", "")
                if {a, b} == {want, count}:
                    return st | {"rel"}
                return st
            IN, OUT, T = flow.forward_paths(fn, frozenset(), transfer, edge=edge)
            bad = None
            for b, kind in flow.exits(fn):
                if kind == "return" and b.id in OUT:
                    for ps in OUT[b.id]:
                        if "assigned" in ps and "rel" not in ps:
                            bad = b
            if bad is None:
                chk.ok(rule, "%s: %s == %s checked on every path" % (fn.name, count, want))
            else:
                chk.violation(rule, fn.tu.name, fn.name, "%s->def" % fvar, site.loc,
                              "`%s` gives a function object allocated with %s environment slots a definition whose "
                              "environments_length is never compared with that count: the collector and the upvalue instructions "
                              "index the array by the definition's count and read past the object" % (site.text(), count))
    chk.floor(rule, 3, n)


def _framehdr_rule(chk, prog):
    """unmarshal_one_fiber rebuilds the frame chain from image integers.  A frame's header lives in the JANET_FRAME_SIZE
    slots BELOW its stack offset, so before any header field is stored the offset must be known to be at least
    JANET_FRAME_SIZE - otherwise the header is written in front of fiber->data (heap underflow), even if a later check
    goes on to reject the image.  The proof is linear: facts from the dominating comparisons (discarded if a side of
    the comparison can wrap in 32 bits - `prevframe + JANET_FRAME_SIZE > stack` proves nothing for prevframe near
    INT32_MAX) plus readnat's contract (result >= 0)."""
    from rules.c17_copylen import Analysis, _norm
    from jv.linear import linear
    rule = "C10-FRAMEHDR"
    chk.rule(rule, "a frame header of an unmarshalled fiber is stored only at an offset proved >= JANET_FRAME_SIZE (without relying on a wrapping comparison)")
    fn = prog.need_func("unmarshal_one_fiber", "marsh.c")
    chk.analysed(fn)
    FS = prog.macros.get("JANET_FRAME_SIZE")
    # frame pointer locals: X = janet_stack_frame(<data> + <offset>)  /  through an intermediate pointer
    ptrs = {}
    base = {}
    for x in fn.nodes:
        if x.k == "vardecl" and x.kids:
            r = strip_casts(x.kids[0])
            if r.k == "bin" and r.op == "+" and any(y.k == "mem" and y.field == "data" for y in r.kids[0].walk()):
                base[x.name] = strip_casts(r.kids[1])
            if x.kids[0].in_macro("janet_stack_frame") or any(y.in_macro("janet_stack_frame") for y in x.kids[0].walk()):
                for y in x.kids[0].walk():
                    if is_ref(y) and y.name in base:
                        ptrs[x.name] = base[y.name]
    if not ptrs:
        raise AnalysisBroken("unmarshal_one_fiber: frame pointer derived from fiber->data + offset not found")

    class A2(Analysis):
        def transfer(self, st, x):
            st = Analysis.transfer(self, st, x)
            tgt = rhs = None
            if x.k == "vardecl" and x.kids:
                tgt, rhs = x.name, strip_casts(x.kids[0])
            if tgt and rhs is not None and rhs.k == "call" and rhs.callee == "readnat":
                st = st | {("ge",) + _norm({tgt: 1}, 0)}
            return st
    A = A2(prog, fn)
    IN, OUT, T = flow.forward_paths(fn, frozenset(), A.transfer, edge=A.edge, cap=512)
    n = 0
    fsizes = set(y.v for y in fn.nodes if y.v is not None and "JANET_FRAME_SIZE" in y.macro_names() and y.k != "bin")
    fsizes = set(v for v in fsizes if 1 <= v <= 16)
    if len(fsizes) != 1:
        raise AnalysisBroken("unmarshal_one_fiber: value of JANET_FRAME_SIZE not recovered (%s)" % sorted(fsizes))
    fsize = fsizes.pop()
    for x, S in flow.states_at(fn, IN, T):
        if x.k == "asg" and x.kids[0].k == "mem" and x.kids[0].rec == "JanetStackFrame" and is_ref(strip_casts(x.kids[0].kids[0])) \
                and strip_casts(x.kids[0].kids[0]).name in ptrs:
            off = ptrs[strip_casts(x.kids[0].kids[0]).name]
            ln = linear(off)
            if ln is None:
                raise AnalysisBroken("frame offset `%s` is not linear" % off.text())
            n += 1
            chk.instance(rule)
            goal = (dict(ln[0]), ln[1] - fsize)      # offset - JANET_FRAME_SIZE >= 0
            bad = [ps for ps in S if not A.proves(ps, goal)]
            if bad:
                chk.violation(rule, "marsh.c", fn.name, "header:%s" % x.kids[0].field, x.loc,
                              "`%s` writes a frame header field for a frame at offset `%s`, which is not proved to be >= "
                              "JANET_FRAME_SIZE here (a comparison that can wrap in 32 bits proves nothing): the header lands in front "
                              "of fiber->data" % (x.text()[:50], off.text()))
            else:
                chk.ok(rule, "%s at offset %s >= JANET_FRAME_SIZE" % (x.kids[0].text(), off.text()))
    chk.floor(rule, 4, n)


NOABORT_OK = {
    ("gc.c", "janet_gcalloc"): "allocation failure (JANET_OUT_OF_MEMORY); not input-controlled beyond size limits checked by the callers",
    ("gc.c", "janet_sfree"): "scratch-memory invariant of the allocator itself",
    ("gc.c", "janet_srealloc"): "scratch-memory invariant / allocation failure",
    ("pp.c", "get_fmt_mapping"): "format letters come from a fixed in-tree table (C17-FMTTABLES checks it)",
    ("symcache.c", "janet_symcache_findmem"): "symbol cache invariant (cache never full), independent of the loaded data",
    ("marsh.c", "unmarshal_one_abstract"): "an in-tree unmarshal hook returned NULL: every registered hook returns the object it allocated",
}


def _noabort_rule(chk, prog):
    """unmarshal and asm must answer bad input with a catchable error.  janet_assert / JANET_EXIT terminate the process
    instead, so every such site reachable from the two entry points is either an internal invariant that the input
    cannot influence (listed with its reason) or must be unreachable because the caller has already rejected the
    input (checked: the caller establishes the asserted condition on every path)."""
    from jv.callgraph import CallGraph
    rule = "C10-NOABORT"
    chk.rule(rule, "no process-terminating assertion reachable from asm / unmarshal depends on the loaded data")
    full = Program.load("default")
    cg = CallGraph(full)
    entries = [e for e in (cg.find(nm) for nm in ("cfun_asm", "cfun_unmarshal")) if e]
    if len(entries) != 2:
        raise AnalysisBroken("cfun_asm / cfun_unmarshal not found")
    # The reader has an internal mode (JANET_MARSHAL_DECREF: read a discarded message back only to drop its references)
    # that the Janet-level unmarshal cannot select - it passes literal flags.  Calls made only under that flag are not
    # reachable from the two entry points.  The premise is checked: cfun_unmarshal hands janet_unmarshal a constant.
    um = cg.funcs[cg.find("cfun_unmarshal")]
    internal_only = all(len(c.args) >= 3 and strip_casts(c.args[2]).k == "int" for c in um.calls("janet_unmarshal")) and bool(um.calls("janet_unmarshal"))

    def gated(site):
        q = site.parent
        while q is not None:
            if q.k == "if" and any("JANET_MARSHAL_DECREF" in y.macro_names() for y in q.kids[0].walk()):
                # only the true arm is the internal mode
                arm = q.kids[1]
                if any(y is site for y in arm.walk()):
                    return True
            q = q.parent
        return False
    # janet_signalv / janet_call end a pending async operation when the signal they coerce to an error is an await
    # (`== JANET_SIGNAL_EVENT`).  asm and unmarshal raise errors, never awaits, so what hangs off those branches (the
    # event callbacks, through fiber->ev_callback) is not reachable from them.  The premise is checked below: janet_await
    # must not be reachable from the two entry points; if it is, the branches are followed after all.
    def event_gated(site):
        q = site.parent
        while q is not None:
            if q.k == "if" and any(y.k == "ref" and y.name == "JANET_SIGNAL_EVENT" for y in q.kids[0].walk()) and \
                    any(y.k == "bin" and y.op == "==" for y in q.kids[0].walk()) and any(y is site for y in q.kids[1].walk()):
                return True
            q = q.parent
        return False

    def closure(skip_event):
        fwd = set(entries)
        work = list(entries)
        while work:
            x = work.pop()
            per = {}
            for (n_, tgt, kind) in cg.sites.get(x, ()):
                for t in tgt:
                    per.setdefault(t, []).append((internal_only and gated(n_)) or (skip_event and event_gated(n_)))
            skip = set(t for t, gs in per.items() if gs and all(gs))
            for y in cg.edges.get(x, ()):
                if y in skip:
                    continue
                if y not in fwd and isinstance(y, tuple):
                    fwd.add(y)
                    work.append(y)
        return fwd
    fwd = closure(True)
    aw = cg.find("janet_await")
    if aw is not None and aw in fwd:
        chk.note("%s: janet_await is reachable from asm / unmarshal, so the await-only branches of janet_signalv are followed" % rule)
        fwd = closure(False)
    n = 0
    for fid in sorted(fwd):
        fn = cg.funcs.get(fid)
        if fn is None:
            continue
        sites = {}
        for x in fn.nodes:
            if x.k == "call" and (x.in_macro("janet_assert") or x.in_macro("JANET_EXIT")) and x.callee in ("exit", "abort"):
                sites.setdefault(x.ln, x)
        for ln, x in sorted(sites.items()):
            n += 1
            chk.instance(rule)
            key = (fid[0], fid[1])
            if key in NOABORT_OK:
                chk.exception(rule, "%s:%s" % key, NOABORT_OK[key])
                chk.ok(rule, "%s: internal invariant" % fid[1])
                continue
            # precondition established by every caller that is itself reachable from the entries?
            asserted = None
            for y in fn.nodes:
                if y.k == "bin" and y.op == "==" and y.in_macro("janet_assert") and y.ln == ln:
                    asserted = y
            callers = [(g, c) for g in fwd if g in cg.funcs for c in cg.funcs[g].calls(fid[1])]
            good = bool(callers) and asserted is not None
            for g, c in callers:
                gfn = cg.funcs[g]
                IN, T = flow.condition_facts(gfn)
                fld = strip_casts(asserted.kids[0]).field if asserted is not None and strip_casts(asserted.kids[0]).k == "mem" else None
                val = strip_casts(asserted.kids[1]).v if asserted is not None else None
                for z, S in flow.states_at(gfn, IN, T):
                    if z is c:
                        for ps in S:
                            if not any(op == "==" and ln_ is not None and ln_.k == "mem" and ln_.field == fld and
                                       ((rn is None and val == 0) or (rn is not None and rn.v == val))
                                       for (op, l, r, _, ln_, rn) in ps):
                                good = False
            if good:
                chk.ok(rule, "%s: asserted condition is established by every loader-side caller (%s)" % (
                    fid[1], ", ".join(sorted(set(g[1] for g, _ in callers)))))
            else:
                chk.violation(rule, fid[0], fid[1], "abort", x.loc,
                              "%s terminates the process (janet_assert) and is reachable from asm/unmarshal without its callers "
                              "having rejected the input first: malformed input kills the interpreter instead of raising an error" % fid[1])
    chk.floor(rule, 5, n)


def _verifyenv_rule(chk, prog):
    """JOP_CLOSURE treats def->environments[i] == -1 (or an index beyond the parent's count) as "capture my own frame" and
    anything else as an index into func->envs.  A value below -1 is therefore an out-of-bounds index; janet_verify has
    to reject it.  janet_verify also relates arity to slotcount - in a form that cannot wrap for an arity near
    INT32_MAX."""
    rule = "C10-VERIFYENV"
    chk.rule(rule, "janet_verify rejects environment indices below -1 and bounds arity against slotcount without a wrapping addition")
    fn = prog.need_func("janet_verify", "bytecode.c")
    chk.analysed(fn)
    chk.instance(rule)
    low = [x for x in fn.nodes if x.k == "bin" and x.op == "<" and strip_casts(x.kids[1]).v == -1
           and any(y.k == "mem" and y.field == "environments" for y in x.kids[0].walk())]
    if low:
        chk.ok(rule, "janet_verify: environments[i] < -1 rejected")
    else:
        chk.violation(rule, "bytecode.c", fn.name, "environments-lower-bound", fn.loc,
                      "janet_verify does not reject def->environments[i] < -1: JOP_CLOSURE then indexes func->envs with a negative "
                      "number taken from the image / assembly")
    chk.instance(rule)
    sums = [x for x in fn.nodes if x.k == "bin" and x.op == "+" and (x.t or "") in ("int", "int32_t")
            and any(y.k == "mem" and y.field in ("arity", "slotcount", "min_arity", "max_arity") for y in x.walk())]
    if sums:
        chk.violation(rule, "bytecode.c", fn.name, "arity-sum", sums[0].loc,
                      "`%s` adds to an arity taken from untrusted input in 32 bits: for an arity near INT32_MAX the sum wraps "
                      "negative and the slot-count test passes" % sums[0].text())
    else:
        chk.ok(rule, "janet_verify: arity bounded against slotcount without an addition")


def _bitsetnull_rule(chk, prog):
    """def->closure_bitset exists only for functions produced by the compiler in this process; defs from asm or from an
    image without that section have NULL.  Every subscript of the bitset must be guarded by a NULL test (janet_env_detach
    does it; a sibling that forgets crashes when such a function's closure is marshalled)."""
    rule = "C10-BITSETNULL"
    chk.rule(rule, "every subscript of a funcdef's closure_bitset is dominated by a NULL test")
    full = Program.load("default", units=["marsh.c", "fiber.c", "gc.c", "vm.c", "bytecode.c", "asm.c"])
    n = 0
    for fn in full.all_funcs():
        holders = set()
        for x in fn.nodes:
            if x.k == "vardecl" and x.kids and any(y.k == "mem" and y.field == "closure_bitset" for y in x.kids[0].walk()):
                holders.add(x.name)
        subs = [x for x in fn.nodes if x.k == "sub" and ((is_ref(strip_casts(x.kids[0])) and strip_casts(x.kids[0]).name in holders)
                                                          or (strip_casts(x.kids[0]).k == "mem" and strip_casts(x.kids[0]).field == "closure_bitset"))]
        subs = [x for x in subs if not (x.parent is not None and x.parent.k == "asg" and x.parent.kids[0] is x)]
        if not subs:
            continue
        chk.analysed(fn)
        IN, T = flow.condition_facts(fn)
        done = set()
        for z, S in flow.states_at(fn, IN, T):
            for x in subs:
                if x.id in done or not any(y is x for y in z.walk()):
                    continue
                done.add(x.id)
                n += 1
                chk.instance(rule)
                base = strip_casts(x.kids[0]).text()
                ok = bool(S) and all(any(op == "!=" and l == base and (rn is None or rn.v == 0) for (op, l, r, _, ln, rn) in ps) for ps in S)
                if ok:
                    chk.ok(rule, "%s: %s read under a NULL test" % (fn.name, base))
                else:
                    chk.violation(rule, fn.tu.name, fn.name, "bitset:%s" % base, x.loc,
                                  "`%s` is subscripted without a NULL test: for a function built by asm or loaded from an image "
                                  "without the bitset section this dereferences NULL" % base)
    chk.floor(rule, 2, n)


# ------------------------------------------------------------------------------------------------
FIELD_OF = {(8, 8): "A", (16, 8): "B", (24, 8): "C", (8, 24): "D", (16, 16): "E"}
COVERS = {"A": ("A", "D"), "B": ("B", "E"), "C": ("C", "E"), "D": ("D",), "E": ("E",)}


def _field(e):
    """decode (instr >> s) [& 0xFF] -> field letter"""
    e = strip_casts(e)
    mask = None
    if e.k == "bin" and e.op == "&" and e.kids[1].v == 0xFF:
        mask = 8
        e = strip_casts(e.kids[0])
    if e.k == "bin" and e.op == ">>" and e.kids[1].v is not None:
        base = strip_casts(e.kids[0])
        # (int32_t)instr >> 8 (signed jump fields) are not slot fields
        s = e.kids[1].v
        width = mask if mask else 32 - s
        return FIELD_OF.get((s, width)), base
    return None, None


def verifier_table(prog):
    """instruction type -> {field letter: limit text} from bytecode.c:janet_verify"""
    fn = prog.need_func("janet_verify", "bytecode.c")
    sws = [n for n in fn.nodes if n.k == "switch" and is_ref(strip_casts(n.kids[0]), "type")]
    if not sws:
        raise AnalysisBroken("janet_verify: switch on the instruction type not found")
    sw = sws[0]
    from jv.util import case_map
    cm = case_map(sw)
    table = {}
    for c in switch_cases(sw):
        if c.k == "case":
            table.setdefault(case_name(c), {})
    jumps = {}
    for n in sw.walk():
        if n.k == "bin" and n.op in (">=", ">") and n.id in cm:
            f, base = _field(n.kids[0])
            if f and is_ref(base, "instr"):
                lim = strip_casts(n.kids[1]).text()
                for t in cm[n.id]:
                    table.setdefault(t, {})[f] = lim
        if n.k == "vardecl" and n.name == "jumpdest" and n.id in cm:
            for x in n.walk():
                if x.k == "bin" and x.op == ">>" and x.kids[1].v in (8, 16):
                    for t in cm[n.id]:
                        jumps[t] = "DS" if x.kids[1].v == 8 else "ES"
    # a jump field counts only if jumpdest is range-checked in the same arm
    for n in sw.walk():
        if n.k == "bin" and n.op in (">=",) and is_ref(strip_casts(n.kids[0]), "jumpdest") and n.id in cm:
            for t in cm[n.id]:
                if t in jumps:
                    table[t]["jump:" + jumps[t]] = strip_casts(n.kids[1]).text()
    return fn, table


def instruction_types(prog):
    tu = prog.tus["bytecode.c"]
    init = tu.ginit("janet_instructions")
    if init is None:
        raise AnalysisBroken("janet_instructions table not found")
    ops = prog.enumtypes.get("JanetOpCode")
    if not ops:
        raise AnalysisBroken("enum JanetOpCode not found")
    out = {}
    for i, k in enumerate(init.kids):
        k = strip_casts(k)
        if i < len(ops) and k.k == "ref":
            out[ops[i]] = k.name
    return out, ops


def _operands_rule(chk, prog):
    rule = "C10-OPERANDS"
    chk.rule(rule, "operand fields used as indices by run_vm are bounded by janet_verify for the opcode's type, or asserted at run time")
    from jv.vm import VMHandlers
    vfn, table = verifier_table(prog)
    chk.analysed(vfn)
    types, ops = instruction_types(prog)
    vm = VMHandlers(prog)
    fn = vm.fn
    chk.analysed(fn)
    chk.extra["verifier_table"] = table
    # after janet_fiber_popframe + vm_restore the operand macros decode the *caller's* pending call
    # instruction, not the returning one: may-analysis "popped" per handler
    dispatch = fn.igoto

    def ptransfer(st, n):
        if n.k == "call" and n.callee == "janet_fiber_popframe":
            return frozenset(["popped"])
        return st

    def pedge(st, blk, succ, cond, truth):
        return None if succ == dispatch else st
    popped = set()
    for e in vm.handler_entry_blocks().values():
        I, O = flow.forward(fn, frozenset(), ptransfer, lambda a, b: a | b, edge=pedge, start=e)
        for b, st in I.items():
            for x in fn.blocks[b].elems:
                if st:
                    popped.add(x.id)
                st = ptransfer(st, x)
    operand_derived = {}
    for n in fn.nodes:
        if n.k == "vardecl" and n.kids:
            for x in n.kids[0].walk():
                for m in x.macro_names():
                    if m in ("A", "B", "C", "D", "E"):
                        operand_derived[(vm.handler_of(n), n.name)] = m
    nuse = 0
    per = {}
    for n in fn.nodes:
        if n.k != "sub":
            continue
        h = vm.handler_of(n)
        if not h or not h.startswith("label_JOP_"):
            continue
        op = h[len("label_"):]
        if n.id in popped:
            op = "JOP_CALL"     # the frame that is current again was suspended in its call instruction
        base = strip_casts(n.kids[0])
        idx = n.kids[1]
        letter = None
        for m in idx.macro_names():
            if m in ("A", "B", "C", "D", "E"):
                letter = m
                break
        if is_ref(base, "stack") and letter:
            per.setdefault((op, "slot", letter), n)
    for (op, kind, letter), n in sorted(per.items(), key=lambda kv: (kv[0][0], kv[0][2])):
        t = types.get(op)
        if t is None:
            raise AnalysisBroken("no instruction type for %s" % op)
        nuse += 1
        chk.instance(rule)
        ver = table.get(t, {})
        cov = [f for f in COVERS[letter] if ver.get(f) in ("sc",)]
        if cov:
            chk.ok(rule, "%s (%s): stack[%s] covered by verifier field %s < slotcount" % (op, t, letter, cov[0]))
        else:
            chk.violation(rule, "vm.c", "run_vm", "%s:stack[%s]" % (op, letter), n.loc,
                          "handler of %s indexes the stack with operand %s, but janet_verify's arm for its type %s bounds only "
                          "%s against the slot count: a crafted image indexes outside the frame" % (
                              op, letter, t, sorted(k for k, v in ver.items() if v == "sc") or "nothing"))
    # non-stack indices: constants / defs / environments: verifier or a run-time vm_assert in the handler
    for arr, limit_field in (("constants", "constants_length"), ("defs", "defs_length"), ("envs", "environments_length")):
        for n in fn.nodes:
            if n.k == "sub" and strip_casts(n.kids[0]).k == "mem" and strip_casts(n.kids[0]).field == arr:
                h = vm.handler_of(n)
                if not h or not h.startswith("label_JOP_"):
                    continue
                op = h[len("label_"):]
                t = types.get(op)
                idxvar = strip_casts(n.kids[1])
                if not (idxvar.k == "ref" and (h, idxvar.name) in operand_derived) and \
                        not any(m in ("A", "B", "C", "D", "E") for m in idxvar.macro_names()):
                    continue     # not an instruction operand (loop variable, funcdef data checked at run time)
                nuse += 1
                chk.instance(rule)
                ver = table.get(t, {})
                verified = any(limit_field in (v or "") for v in ver.values())
                asserted = False
                for x in fn.nodes:
                    if vm.handler_of(x) == h and x.k == "bin" and x.op in ("<", ">", "<=", ">=") and x.in_macro("vm_assert") \
                            and any(y.k == "ref" and idxvar.k == "ref" and y.name == idxvar.name for y in x.walk()) and x.ln <= n.ln:
                        asserted = True
                if verified or asserted:
                    chk.ok(rule, "%s: %s[%s] bounded by %s" % (op, arr, idxvar.text(), "verifier" if verified else "vm_assert"))
                else:
                    chk.violation(rule, "vm.c", "run_vm", "%s:%s" % (op, arr), n.loc,
                                  "%s indexes %s with an operand that neither janet_verify (type %s) nor a vm_assert in the handler bounds" % (op, arr, t))
    # jumps: pc += DS / ES
    for n in fn.nodes:
        if n.k == "asg" and n.op == "+=" and is_ref(n.kids[0], "pc"):
            h = vm.handler_of(n)
            if not h or not h.startswith("label_JOP_"):
                continue
            op = h[len("label_"):]
            t = types.get(op)
            f = None
            for m in n.kids[1].macro_names():
                if m in ("DS", "ES"):
                    f = m
            if f is None:
                continue
            nuse += 1
            chk.instance(rule)
            if table.get(t, {}).get("jump:" + f):
                chk.ok(rule, "%s (%s): pc += %s verified in range" % (op, t, f))
            else:
                chk.violation(rule, "vm.c", "run_vm", "%s:jump:%s" % (op, f), n.loc,
                              "%s jumps by %s but janet_verify's arm for type %s does not range-check that jump field" % (op, f, t))
    if nuse < 120:
        raise AnalysisBroken("only %d operand uses found in run_vm" % nuse)
    # last instruction: the opcodes accepted as last never fall through to pc++
    lastsw = [n for n in vfn.nodes if n.k == "switch" and is_ref(strip_casts(n.kids[0]), "lastop")]
    if not lastsw:
        raise AnalysisBroken("janet_verify: last-instruction switch not found")
    accepted = [case_name(c) for c in switch_cases(lastsw[0]) if c.k == "case"]
    for op in accepted:
        chk.instance(rule)
        h = "label_" + op
        falls = [x for x in fn.nodes if vm.handler_of(x) == h and x.k == "un" and x.op in ("post++", "pre++")
                 and is_ref(x.kids[0], "pc") and x.id not in popped]
        # JOP_TAILCALL / JOP_ERROR / RETURN: pc++ may appear only on paths that first reassign pc (call into C function, popframe)
        if op in ("JOP_RETURN", "JOP_RETURN_NIL", "JOP_ERROR", "JOP_JUMP") and falls:
            chk.violation(rule, "vm.c", "run_vm", "%s:fallthrough" % op, falls[0].loc,
                          "%s is accepted as a function's last instruction but its handler advances pc past it" % op)
        else:
            chk.ok(rule, "%s accepted as last instruction; handler does not run off the end" % op)
    if len(accepted) < 4:
        raise AnalysisBroken("last-instruction switch has only %d cases" % len(accepted))


# ------------------------------------------------------------------------------------------------
BULK_READERS = {  # callee -> (source arg index, length arg index)
    "memcpy": (1, 2), "safe_memcpy": (1, 2), "memmove": (1, 2),
    "janet_string": (0, 1), "janet_symbol": (0, 1), "janet_keyword": (0, 1), "janet_symbolv": (0, 1),
    "janet_keywordv": (0, 1), "janet_stringv": (0, 1),
}


def _eos_rule(chk, prog):
    rule = "C10-EOS"
    chk.rule(rule, "marsh.c: every read through the unmarshal cursor is dominated by an end-of-input check covering it")
    tu = prog.tus["marsh.c"]
    total = 0
    for fn in tu.funcs.values():
        # cursors: locals/params of type const uint8_t * named in reads, and ctx->data
        ends = [n for n in fn.nodes if n.k == "mem" and n.field == "end" and n.rec == "UnmarshalState"]
        if not ends:
            continue
        END = ends[0].text()
        cursors = set()
        for p in fn.params:
            if p["t"].replace(" ", "") == "constuint8_t*":
                cursors.add(p["n"])
        for n in fn.nodes:
            if n.k == "vardecl" and (n.t or "").replace(" ", "") == "constuint8_t*":
                cursors.add(n.name)
            if n.k == "mem" and n.field == "data" and n.rec == "JanetMarshalContext":
                cursors.add(n.text())
        if not cursors:
            continue
        chk.analysed(fn)

        def cur_of(e):
            e = strip_casts(e)
            t = e.text() if e is not None and e.k in ("ref", "mem") else None
            return t if t in cursors else None

        def addk(facts, cur, c):
            return facts | frozenset(("k", cur, i) for i in range(0, min(c, 64) + 1))

        def shift(facts, cur, c):
            out = set()
            for f in facts:
                if f[1] != cur:
                    out.add(f)
                elif f[0] == "k" and f[2] - c >= 0:
                    out.add(("k", cur, f[2] - c))
                elif f[0] == "sym":
                    out.add(("sym", cur, f[2], f[3] - c))
            return frozenset(out)

        def drop(facts, cur):
            return frozenset(f for f in facts if f[1] != cur)

        def transfer(facts, n):
            if n.k == "call" and n.callee and prog.is_noreturn(n.callee):
                return None
            if n.k == "un" and n.op in ("post++", "pre++"):
                c = cur_of(n.kids[0])
                if c:
                    return shift(facts, c, 1)
            if n.k == "asg":
                c = cur_of(n.kids[0])
                if c:
                    if n.op == "+=" and n.kids[1].v is not None:
                        return shift(facts, c, n.kids[1].v)
                    if n.op == "=":
                        lin = linear(n.kids[1])
                        if lin and lin[0] == {c: 1}:
                            return shift(facts, c, lin[1])
                    return drop(facts, c)
                # variables used in symbolic facts
                if is_ref(n.kids[0]):
                    nm = n.kids[0].name
                    return frozenset(f for f in facts if not (f[0] == "sym" and f[2] == nm))
            if n.k == "vardecl":
                return frozenset(f for f in facts if not (f[0] == "sym" and f[2] == n.name))
            if n.k == "call" and n.callee:
                # a callee that receives &cursor may move it
                for a in n.args:
                    a2 = strip_casts(a)
                    if a2.k == "un" and a2.op == "&":
                        c = cur_of(a2.kids[0])
                        if c:
                            facts = drop(facts, c)
            return facts

        def edge(facts, blk, succ, cond, truth):
            if cond is None:
                return facts
            c = flow.compare_of(cond, truth)
            if c is None or c[2] is None:
                return facts
            ineq = inequality(c[0], c[1], c[2])
            if ineq is None:
                return facts
            coefs, const, strict = ineq
            if coefs.get(END) != -1:
                return facts
            curs = [k for k in coefs if k in cursors and coefs[k] == 1]
            if len(curs) != 1:
                return facts
            cur = curs[0]
            rest = {k: v for k, v in coefs.items() if k not in (cur, END)}
            k = const if strict else const - 1
            if not rest:
                if k >= 0:
                    return addk(facts, cur, k)
                return facts
            if len(rest) == 1 and list(rest.values())[0] == 1:
                return facts | frozenset([("sym", cur, list(rest.keys())[0], k)])
            return facts

        IN, OUT = flow.forward(fn, frozenset(), transfer, lambda a, b: a & b, edge=edge)
        # upper bounds of loop indices: for (i = V; i > 0; i--)
        ub = {}
        for n in fn.nodes:
            if n.k == "vardecl" and n.kids and strip_casts(n.kids[0]).k == "ref":
                ub[n.name] = strip_casts(n.kids[0]).name

        def need_const(st, cur, c):
            return ("k", cur, c) in st if c <= 64 else False

        def need_sym(st, cur, var, off):
            return any(f[0] == "sym" and f[1] == cur and f[2] == var and f[3] >= off for f in st)

        for b, st in IN.items():
            for n in fn.blocks[b].elems:
                ok = None
                what = None
                if n.k == "un" and n.op in ("post++", "pre++") and cur_of(n.kids[0]) and n.parent is not None \
                        and n.parent.k == "un" and n.parent.op == "*":
                    cur = cur_of(n.kids[0])
                    ok, what = need_const(st, cur, 0), "*%s++" % cur
                elif n.k == "un" and n.op == "*" and cur_of(n.kids[0]):
                    cur = cur_of(n.kids[0])
                    if not (n.parent is not None and n.parent.k == "asg" and n.parent.kids[0] is n):
                        ok, what = need_const(st, cur, 0), "*%s" % cur
                elif n.k == "sub" and cur_of(n.kids[0]):
                    cur = cur_of(n.kids[0])
                    idx = strip_casts(n.kids[1])
                    if idx.v is not None:
                        ok, what = need_const(st, cur, idx.v), n.text()
                    elif idx.k == "ref" and idx.name in ub:
                        ok, what = need_sym(st, cur, ub[idx.name], 0), n.text()
                    else:
                        ok, what = False, n.text()
                elif n.k == "call" and n.callee in BULK_READERS:
                    si, li = BULK_READERS[n.callee]
                    if si < len(n.args) and li < len(n.args):
                        lin = linear(n.args[si])
                        if lin and len(lin[0]) == 1 and list(lin[0].values())[0] == 1 and list(lin[0].keys())[0] in cursors:
                            cur = list(lin[0].keys())[0]
                            off = lin[1]
                            ln = strip_casts(n.args[li])
                            if ln.v is not None:
                                ok = need_const(st, cur, off + ln.v - 1) if ln.v > 0 else True
                            elif ln.k == "ref":
                                ok = need_sym(st, cur, ln.name, off - 1)
                            else:
                                ok = False
                            what = "%s(%s, %s)" % (n.callee, n.args[si].text(), n.args[li].text())
                if ok is not None:
                    total += 1
                    chk.instance(rule)
                    if ok:
                        chk.ok(rule, "%s: %s within input" % (fn.name, what))
                    else:
                        chk.violation(rule, "marsh.c", fn.name, what, n.loc,
                                      "`%s` reads the input without a dominating check that it lies before %s "
                                      "(MARSH_EOS missing or too short on this path): truncated input is read past its end" % (what, END))
                st = transfer(st, n)
                if st is None:
                    break
    if total < 40:
        raise AnalysisBroken("marsh.c: only %d cursor reads analysed" % total)


def _boxing_rule(chk, prog):
    rule = "C10-BOXING"
    chk.rule(rule, "doubles assembled from input bytes are boxed with janet_wrap_number_safe")
    tu = prog.tus["marsh.c"]
    cnt = 0
    for fn in tu.funcs.values():
        if not fn.name.startswith("unmarshal_one"):
            continue
        for n in fn.nodes:
            # any construction of a number Janet: macro janet_wrap_number / janet_nanbox_from_double / safe variant
            names = n.macro_names()
            if n.k == "call" and n.callee in ("janet_wrap_number_safe", "janet_nanbox_from_double", "janet_wrap_number"):
                cnt += 1
                chk.instance(rule)
                if n.callee == "janet_wrap_number_safe":
                    chk.ok(rule, "%s: %s" % (fn.name, n.text()[:40]))
                else:
                    # allowed only for integers that came through readint (janet_wrap_integer -> exact double)
                    if "janet_wrap_integer" in names:
                        chk.ok(rule, "%s: integer boxed exactly" % fn.name)
                    else:
                        chk.violation(rule, "marsh.c", fn.name, n.callee, n.loc,
                                      "a double taken from input bytes is boxed with %s: a crafted NaN payload forges a "
                                      "pointer-tagged value" % n.callee)
    if cnt < 1:
        raise AnalysisBroken("no number boxing found in unmarshal_one*")
    # the safe boxer itself: with nan-boxing every NaN bit pattern other than the canonical one may carry a type tag
    # (janet_type only tests isnan and then reads the tag bits), so the parameter may be stored raw only where it is
    # known not to be a NaN; every NaN must become the constant NAN
    wtu = Program.load("default", units=["wrap.c"]).tus["wrap.c"]
    fn = wtu.funcs.get("janet_wrap_number_safe")
    if fn is None:
        raise AnalysisBroken("janet_wrap_number_safe not found")
    chk.analysed(fn)
    par = fn.params[0]["n"]
    nanboxed = any(x.k == "asg" and x.kids[0].k == "mem" and x.kids[0].field == "number" for x in fn.nodes)
    chk.instance(rule)
    if not nanboxed and not any("isnan" in x.macro_names() for x in fn.nodes):
        # tagged-union representation (JANET_NO_NANBOX): a double cannot alias a tag
        chk.ok(rule, "janet_wrap_number_safe: no nan-boxing in this configuration")
    else:
        IN, T = flow.condition_facts(fn)
        bad = None
        for x, S in flow.states_at(fn, IN, T):
            raw = None
            if x.k == "asg" and x.op == "=":
                r = strip_casts(x.kids[1])
                if is_ref(r, par):
                    raw = x
                elif r.k == "cond":
                    c, a, b = r.kids
                    isnan_true = c.k == "call" and "isnan" in c.macro_names() and any(is_ref(y, par) for y in c.walk())
                    if isnan_true and is_ref(strip_casts(b), par) and not any(is_ref(y, par) for y in a.walk()):
                        continue
                    if any(is_ref(y, par) for y in r.walk()):
                        raw = x
            elif x.k == "vardecl" and x.kids:
                r = strip_casts(x.kids[0])
                if r.k == "cond":
                    c, a, b = r.kids
                    isnan_true = c.k == "call" and "isnan" in c.macro_names() and any(is_ref(y, par) for y in c.walk())
                    if isnan_true and is_ref(strip_casts(b), par) and not any(is_ref(y, par) for y in a.walk()):
                        continue
                if is_ref(r, par) or (r.k == "cond" and any(is_ref(y, par) for y in r.walk())):
                    raw = x
            elif x.k == "call" and x.callee in ("janet_wrap_number", "janet_nanbox_from_double") and any(is_ref(strip_casts(a), par) for a in x.args):
                raw = x
            if raw is None:
                continue
            # stored raw: needs isnan(d) known false on every path
            for ps in S:
                ok = any(op == "==" and ln is not None and ln.k == "call" and "isnan" in ln.macro_names()
                         and any(is_ref(y, par) for y in ln.walk()) and rn is None for (op, l, r_, _, ln, rn) in ps)
                if not ok:
                    bad = raw
        if bad is not None:
            chk.violation(rule, "wrap.c", fn.name, "raw:%s" % par, bad.loc,
                          "`%s` boxes the double as it is on a path where isnan(%s) has not been excluded: a NaN whose payload "
                          "carries type-tag bits comes out of the 'safe' boxer as a string/table/pointer value" % (bad.text()[:60], par))
        else:
            chk.ok(rule, "janet_wrap_number_safe: every NaN is replaced by the canonical NAN before boxing")


def _fiberimg_rule(chk, prog):
    rule = "C10-FIBERIMG"
    chk.rule(rule, "unmarshal_one_fiber: integers read from the image reach frame/fiber header fields only after a range check that can reject them")
    fn = prog.need_func("unmarshal_one_fiber", "marsh.c")
    chk.analysed(fn)
    tainted = set()
    for n in fn.nodes:
        if n.k == "vardecl" and n.kids and strip_casts(n.kids[0]).k == "call" and strip_casts(n.kids[0]).callee in ("readint", "readnat"):
            tainted.add(n.name)
    if len(tainted) < 6:
        raise AnalysisBroken("unmarshal_one_fiber: only %d integers read from the image found" % len(tainted))
    # blocks that end in a raise
    def leads_to_panic(bid, depth=0):
        blk = fn.blocks[bid]
        if blk.noreturn:
            return True
        for e in blk.elems:
            if e.k == "call" and e.callee and prog.is_noreturn(e.callee):
                return True
        return False

    def mentioned(e):
        return set(x.name for x in e.walk() if x.k == "ref" and x.name in tainted)

    def transfer(st, n):
        if n.k == "call" and n.callee and prog.is_noreturn(n.callee):
            return None
        return st

    def edge(st, blk, succ, cond, truth):
        if cond is None or len(blk.succs) != 2:
            return st
        other = blk.succs[0] if succ == blk.succs[1] else blk.succs[1]
        # walk through the &&/|| chain: the rejecting edge may pass through further condition blocks
        if other >= 0 and (leads_to_panic(other) or _reaches_panic_only_via_conditions(fn, other, leads_to_panic)):
            # the whole condition (incl. || chain) is known on this edge: every tainted variable in it is validated
            full = blk.cond
            return st | frozenset(mentioned(full))
        return st

    IN, OUT = flow.forward(fn, frozenset(), transfer, lambda a, b: a & b, edge=edge)
    SINK_FIELDS = {("JanetStackFrame", "pc"), ("JanetStackFrame", "prevframe"), ("JanetFiber", "frame"),
                   ("JanetFiber", "stackstart"), ("JanetFiber", "stacktop"), ("JanetFiber", "maxstack"),
                   ("JanetFiber", "capacity")}
    cnt = 0
    for b, st in IN.items():
        for n in fn.blocks[b].elems:
            if n.k == "asg" and n.op == "=" and n.kids[0].k == "mem" and (n.kids[0].rec, n.kids[0].field) in SINK_FIELDS:
                vs = mentioned(n.kids[1])
                if not vs:
                    st2 = transfer(st, n)
                    continue
                cnt += 1
                chk.instance(rule)
                missing = sorted(v for v in vs if v not in st)
                if not missing:
                    chk.ok(rule, "%s stored after validation of %s" % (n.kids[0].text(), sorted(vs)))
                else:
                    chk.violation(rule, "marsh.c", fn.name, "%s.%s" % (n.kids[0].rec, n.kids[0].field), n.loc,
                                  "`%s` stores %s, read from the image, without a dominating range check that can reject it" % (
                                      n.text()[:60], missing))
            r = transfer(st, n)
            if r is None:
                break
            st = r
    if cnt < 6:
        raise AnalysisBroken("unmarshal_one_fiber: only %d header stores of image integers found" % cnt)
    # status range check precedes the publication *out = fiber
    status_checked = False
    for n in fn.nodes:
        if n.k == "bin" and n.op in (">", ">=") and any(is_ref(x, "status") for x in n.walk()):
            status_checked = True
    chk.instance(rule)
    if status_checked:
        chk.ok(rule, "fiber status range-checked")
    else:
        chk.violation(rule, "marsh.c", fn.name, "status", fn.loc, "the fiber status taken from the image flags is no longer range-checked")


def _reaches_panic_only_via_conditions(fn, bid, leads_to_panic, depth=0):
    """`a || b || c` -> panic: the true edge of `a` goes straight to the panic block, but the edges of the
    earlier disjuncts go through the blocks that evaluate the later ones; accept blocks that contain only a
    condition and whose one successor leads to the panic"""
    if depth > 4:
        return False
    blk = fn.blocks[bid]
    if blk.cond is None or len(blk.succs) != 2:
        return False
    if any(e.k in ("asg", "call", "vardecl") for e in blk.elems):
        return False
    return any(s >= 0 and (leads_to_panic(s) or _reaches_panic_only_via_conditions(fn, s, leads_to_panic, depth + 1))
               for s in blk.succs)


def _envuse_rule(chk, prog):
    """An unmarshalled on-stack closure environment carries a negated offset and, in `as`, a fiber pointer - it looks
    like an off-stack environment (offset <= 0) until janet_env_valid has either promoted it (offset > 0) or emptied it.
    Every consumer must therefore validate BEFORE it looks at the sign of the offset or follows `as`: janet_env_valid
    changes the offset, so a test made before the call describes the environment as it no longer is."""
    rule = "C10-ENVUSE"
    chk.rule(rule, "every reader of a closure environment's offset / storage pointer validates the environment first (janet_env_valid before the on-stack test)")
    VALIDATORS = ("janet_env_valid", "janet_env_maybe_detach")
    n_sites = 0
    for fn in prog.all_funcs():
        if fn.name == "janet_env_valid":
            continue

        def env_read(x):
            """-> base text if x reads E->offset or E->as of a JanetFuncEnv"""
            if x.k == "mem" and x.rec == "JanetFuncEnv" and x.field in ("offset", "as"):
                return x.kids[0].text().replace(" ", "")
            return None
        reads = [x for x in fn.nodes if env_read(x)]
        if not reads:
            continue
        chk.analysed(fn)

        def is_store_target(x):
            # x (or the union member above it) is the left side of a plain assignment
            p_ = x.parent
            top = x
            while p_ is not None and p_.k == "mem" and p_.kids and p_.kids[0] is top:
                top = p_
                p_ = p_.parent
            return p_ is not None and p_.k == "asg" and p_.op == "=" and p_.kids[0] is top

        def transfer(st, x):
            if x.k == "call" and x.callee in VALIDATORS and x.args:
                return st | frozenset([x.args[0].text().replace(" ", "")])
            e = env_read(x)
            if e and is_store_target(x):
                return st | frozenset([e])           # the function itself defines the representation
            tgt = None
            if x.k == "asg" and x.kids[0].k == "ref":
                tgt = x.kids[0].name
            elif x.k == "vardecl":
                tgt = x.name
            if tgt:
                import re
                return frozenset(v for v in st if not re.search(r"\b%s\b" % re.escape(tgt), v))
            return st

        def edge(st, blk, succ, cond, truth):
            c = flow.compare_of(cond, truth)
            if c is None or c[2] is None:
                return st
            l, op, r = strip_casts(c[0]), c[1], strip_casts(c[2])
            for a, b in ((l, r), (r, l)):
                e = env_read(a)
                if e and a.field == "offset" and b.v == 0 and op == "==":
                    return st | frozenset([e])       # offset == 0: off-stack, never an unvalidated image offset
            return st
        IN, OUT = flow.forward(fn, frozenset(), transfer, lambda a, b: a & b, edge=edge)
        for x, st in flow.states_at(fn, IN, transfer):
            e = env_read(x)
            if not e or is_store_target(x):
                continue
            # a bare (in)equality test of the offset against 0 is meaningful on an unvalidated environment too
            p_ = x.parent
            while p_ is not None and p_.k in ("cast", "paren"):
                p_ = p_.parent
            if x.field == "offset" and p_ is not None and p_.k == "bin" and p_.op in ("==", "!=") and any(k.v == 0 for k in p_.kids):
                continue
            n_sites += 1
            chk.instance(rule)
            if e in st:
                chk.ok(rule, "%s: `%s` read after validation" % (fn.name, x.text()[:40]))
            else:
                chk.violation(rule, fn.tu.name, fn.name, "%s:%s" % (e, x.field), x.loc,
                              "`%s` is read before janet_env_valid(%s) on some path: for an environment that came out of an image the offset is "
                              "still the negated, unchecked one and `as` holds a fiber pointer, so the on-stack test takes the off-stack branch "
                              "(or, validated afterwards, the branch no longer matches the representation)" % (x.text()[:40], e))
    chk.floor(rule, 12, n_sites)


SYMMAP_TRUSTED = {"janet_bytecode_remove_noops": "compile.c"}


def _symmap_rule(chk, prog):
    """JanetSymbolMap entries come straight from images and from asm input and are not covered by janet_verify; whoever
    indexes with one of their fields must bound it first."""
    rule = "C10-SYMMAP"
    chk.rule(rule, "an index taken from a symbol-map entry (slot_index, death_pc) is compared against a bound before it is used as a subscript")
    n_sites = 0
    from jv.callgraph import CallGraph
    cg = CallGraph(prog)
    for fn in prog.all_funcs():
        if fn.name in SYMMAP_TRUSTED:
            # who-may-call: reached only from the compiler, on the symbol map the compiler has just built
            callers = set(cg.funcs[a].tu.name for a, outs in cg.edges.items() if cg.fid(fn) in outs)
            if callers and callers <= {SYMMAP_TRUSTED[fn.name]}:
                chk.exception(rule, fn.name, "called only from %s on the definition the compiler itself has just produced "
                              "(checked on every run)" % SYMMAP_TRUSTED[fn.name])
                continue
        subs = []
        for x in fn.nodes:
            if x.k == "sub" and len(x.kids) == 2:
                fields = [y for y in x.kids[1].walk() if y.k == "mem" and y.rec == "JanetSymbolMap" and y.field in ("slot_index", "death_pc", "birth_pc")]
                if fields:
                    subs.append((x, fields))
        if not subs:
            continue
        chk.analysed(fn)
        IN, T = flow.condition_facts(fn)
        for x, S in flow.states_at(fn, IN, T):
            for (sx, fields) in subs:
                if x is not sx:
                    continue
                for f in fields:
                    n_sites += 1
                    chk.instance(rule)
                    ft = f.text().replace(" ", "")
                    ok = bool(S)
                    for ps in S:
                        good = False
                        for (op, l, r, toks, ln, rn) in ps:
                            lt, rt = l.replace(" ", ""), (r or "").replace(" ", "")
                            if (op in ("<", "<=") and lt == ft and rt) or (op in (">", ">=") and rt == ft):
                                good = True
                        if not good:
                            ok = False
                    if ok:
                        chk.ok(rule, "%s: `%s` bounded before `%s`" % (fn.name, ft, sx.text()[:40]))
                    else:
                        chk.violation(rule, fn.tu.name, fn.name, "%s@%s" % (ft, sx.kids[0].text()[:24].replace(" ", "")), sx.loc,
                                      "`%s` subscripts with `%s`, a symbol-map field that images and asm input supply unchecked, on a path with no "
                                      "upper-bound comparison of it: out-of-bounds read" % (sx.text()[:60], ft))
    chk.floor(rule, 4, n_sites)


def _abstractinit_rule(chk, prog):
    """janet_unmarshal_abstract puts a new, uninitialised abstract on the collector's heap at once.  If the unmarshal
    hook then raises (the image ends, a field is out of range) the object stays there, and the next collection runs the
    type's finalizer over whatever the allocator left in the block.  A hook of a type that has a finalizer must therefore
    bring the object into a finalizable state before it reads anything more from the image.  Hooks that refuse to run
    without JANET_MARSHAL_UNSAFE are not reachable from untrusted bytes and are left out."""
    rule = "C10-ABSTRACTINIT"
    chk.rule(rule, "an unmarshal hook of an abstract type with a finalizer initialises the new object before any further read that can raise")
    from rules.c03 import abstract_types
    READERS = ("janet_unmarshal_int", "janet_unmarshal_int64", "janet_unmarshal_size", "janet_unmarshal_byte", "janet_unmarshal_bytes",
               "janet_unmarshal_janet", "janet_unmarshal_ptr", "janet_panic", "janet_panicf", "janet_panicv")
    n = 0
    for tu, name, vals in abstract_types(prog):
        gc = vals.get("gc")
        um = vals.get("unmarshal")
        if gc is None or um is None or gc.k != "ref" or um.k != "ref":
            continue
        fn = next((f for f in prog.all_funcs() if f.name == um.name), None)
        if fn is None:
            continue
        allocs = fn.calls("janet_unmarshal_abstract", "janet_unmarshal_abstract_threaded")
        if not allocs:
            continue
        # refuses untrusted input before allocating?
        first = min(a.ln for a in allocs)
        def unsafe_test(c):
            return any("JANET_MARSHAL_UNSAFE" in y.macro_names() or "JANET_MARSHAL_UNSAFE" in y.text() for y in c.walk())
        gate = [c for c in fn.nodes if c.k == "if" and c.ln < first and unsafe_test(c.kids[0])
                and any((y.k == "call" and prog.is_noreturn(y.callee or "")) for y in c.kids[1].walk())]
        wholly_gated = any(c.k == "if" and unsafe_test(c.kids[0]) and any(a in list(c.kids[1].walk()) for a in allocs) for c in fn.nodes)
        n += 1
        chk.instance(rule)
        chk.analysed(fn)
        if gate or wholly_gated:
            chk.ok(rule, "%s (%s): runs only under JANET_MARSHAL_UNSAFE - not reachable from untrusted images" % (fn.name, name))
            continue

        def transfer(st, x):
            if x in allocs:
                return frozenset(["raw"])
            if x.k == "call" and "raw" in st and x.callee and x.callee not in READERS and x.args and \
                    any(is_ref(strip_casts(a)) for a in x.args[:1]) and ("init" in x.callee):
                return frozenset()
            return st
        IN, OUT = flow.forward(fn, frozenset(), transfer, lambda a, b: a | b)
        bad = None
        for x, st in flow.states_at(fn, IN, transfer):
            # only the threaded variant raises by itself (it needs the unsafe flag); it allocates nothing before that
            if "raw" in st and x.k == "call" and x.callee in READERS:
                bad = bad or x
        if bad is None:
            chk.ok(rule, "%s (%s): object initialised before the next read" % (fn.name, name))
        else:
            chk.violation(rule, fn.tu.name, fn.name, "raw-at:%s" % bad.callee, bad.loc,
                          "`%s` can raise while the abstract allocated by janet_unmarshal_abstract is still uninitialised; the object is "
                          "already on the heap and %s (its finalizer) will run over uninitialised memory at the next collection" % (
                              bad.text()[:50], gc.name))
    chk.floor(rule, 2, n)


def _cmp_int32max(fn, name):
    """does `fn` compare the variable `name` with INT32_MAX"""
    for x in fn.nodes:
        if x.k == "bin" and x.op in ("<", ">", "<=", ">="):
            sides = [strip_casts(k) for k in x.kids]
            if any(k.k == "ref" and k.name == name for k in sides) and \
                    any("INT32_MAX" in y.macro_names() or y.v == 2 ** 31 - 1 for k in x.kids for y in k.walk()):
                return True
    return False


def _frameroom_rule(chk, prog):
    """A definition's slotcount comes out of an image or from asm and is only known to be a non-negative int32.  The
    frame constructors add it to the current stack position to find where the new frame ends; done in 32 bits that sum
    wraps for a huge slotcount, the `is there room` test passes, and the frame is built outside the fiber's stack."""
    rule = "C10-FRAMEROOM"
    chk.rule(rule, "the frame constructors compute the end of a new frame from a definition's slotcount in 64 bits and range-check it against INT32_MAX before narrowing")
    tu = prog.tus["fiber.c"]
    byname = {f.name: f for f in tu.funcs.values()}
    n = 0
    for fn in tu.funcs.values():
        sums = [x for x in fn.nodes if x.k == "bin" and x.op == "+" and any(y.k == "mem" and y.field == "slotcount" and y.rec == "JanetFuncDef" for y in x.walk())
                and not (x.parent is not None and x.parent.k == "bin" and x.parent.op == "+")]
        if not sums:
            continue
        chk.analysed(fn)
        for x in sums:
            n += 1
            chk.instance(rule)
            if (x.t or "") not in ("int64_t", "long", "long long", "size_t", "unsigned long"):
                chk.violation(rule, "fiber.c", fn.name, "slotcount-sum", x.loc,
                              "`%s` adds a definition's slotcount in %s arithmetic: for a slotcount near INT32_MAX (accepted by asm and "
                              "by unmarshal) the sum wraps negative, the capacity test passes and the frame is written outside the "
                              "fiber's stack" % (x.text()[:60], x.t or "32-bit"))
                continue
            p = x.parent
            while p is not None and p.k in ("cast", "paren"):
                p = p.parent
            var = p.name if p is not None and p.k == "vardecl" else None
            checked = False
            if var:
                checked = _cmp_int32max(fn, var)
                for c in fn.nodes:
                    if checked:
                        break
                    if c.k == "call" and c.callee in byname:
                        for ai, a in enumerate(c.args):
                            if strip_casts(a).k == "ref" and strip_casts(a).name == var:
                                g = byname[c.callee]
                                ps = g.params
                                if ai < len(ps) and _cmp_int32max(g, ps[ai]["n"]):
                                    checked = True
            if checked:
                chk.ok(rule, "%s: `%s` computed in 64 bits and compared with INT32_MAX before it is narrowed" % (fn.name, x.text()[:50]))
            else:
                chk.violation(rule, "fiber.c", fn.name, "slotcount-sum-unchecked", x.loc,
                              "`%s` is computed in 64 bits but never compared with INT32_MAX before it is narrowed to a stack index" % x.text()[:60])
    chk.floor(rule, 2, n)


# fields of a definition that unmarshal code outside unmarshal_one_def reads, and why reading the zero the field holds
# while the definition is still being read is safe (None = it is not: the final value must be there before the first
# nested value is read)
DEFPUBLISH_ZERO_SAFE = {
    "bytecode_length": "only an upper bound for a frame's pc: zero rejects every frame",
    "bytecode": "only added to a pc that passed the bytecode_length bound",
    "slotcount": "assigned from the header before anything nested is read (checked as an early field as well)",
}


def _defpublish_rule(chk, prog):
    """unmarshal_one_def enters the definition in lookup_defs before it reads the constants, so a function among the
    constants can refer back to the definition while it is unfinished.  Whatever other unmarshal code reads from a
    definition must then already hold its final value, or a zero that makes the reader refuse."""
    rule = "C10-DEFPUBLISH"
    chk.rule(rule, "every definition field that other unmarshal code reads holds its final value before unmarshal_one_def reads the first nested value (or a zero the reader refuses)")
    tu = prog.tus["marsh.c"]
    byname = {f.name: f for f in tu.funcs.values()}
    d = byname.get("unmarshal_one_def")
    if d is None:
        raise AnalysisBroken("unmarshal_one_def not found")
    chk.analysed(d)
    # readers: def fields read in the unmarshal half of marsh.c outside unmarshal_one_def
    readers = {}
    for fn in tu.funcs.values():
        if fn is d or not (fn.name.startswith("unmarshal_one") or fn.name == "unmarshal_one"):
            continue
        for x in fn.nodes:
            if x.k == "mem" and x.rec == "JanetFuncDef" and not (x.parent is not None and x.parent.k == "asg" and x.parent.kids[0] is x):
                readers.setdefault(x.field, []).append((fn, x))
    if "environments_length" not in readers:
        raise AnalysisBroken("no unmarshal code reads a definition's environments_length any more: re-derive the reader table")
    # position of the publication and of the first nested read in unmarshal_one_def, in source order on the straight-line spine
    order = {id(x): i for i, x in enumerate(d.nodes)}
    pub = [c for c in d.calls("janet_v_push") if "lookup_defs" in c.text()] or \
          [x for x in d.nodes if x.k in ("call", "asg") and "lookup_defs" in x.text() and x.k == "asg"]
    if not pub:
        pub = [x for x in d.nodes if "lookup_defs" in x.text() and x.k in ("asg", "call")]
    if not pub:
        raise AnalysisBroken("unmarshal_one_def: publication into lookup_defs not found")
    nested = [c for c in d.nodes if c.k == "call" and c.callee in ("unmarshal_one", "unmarshal_one_def")]
    if not nested:
        raise AnalysisBroken("unmarshal_one_def: no nested unmarshal call")
    first = min(order[id(c)] for c in nested)
    for field in sorted(readers):
        chk.instance(rule)
        writes = [x for x in d.nodes if x.k == "asg" and x.kids[0].k == "mem" and x.kids[0].field == field and x.kids[0].rec == "JanetFuncDef"]
        final_early = [w for w in writes if order[id(w)] < first and not (strip_casts(w.kids[1]).k == "int" and strip_casts(w.kids[1]).v == 0)
                       and not strip_casts(w.kids[1]).text() in ("NULL", "((void *)0)")]
        where = ", ".join(sorted(set(fn.name for fn, _ in readers[field])))
        if final_early:
            chk.ok(rule, "%s: final value assigned before the first nested read (read by %s)" % (field, where))
        elif DEFPUBLISH_ZERO_SAFE.get(field):
            zero = [w for w in writes if order[id(w)] < first]
            if zero:
                chk.ok(rule, "%s: zero until finished, %s (read by %s)" % (field, DEFPUBLISH_ZERO_SAFE[field], where))
            else:
                chk.violation(rule, "marsh.c", "unmarshal_one_def", "unset:" + field, d.loc,
                              "`def->%s` is read by %s but is not even zeroed before the first nested value is read" % (field, where))
        else:
            fn, x = readers[field][0]
            chk.violation(rule, "marsh.c", "unmarshal_one_def", "late:" + field, (writes[-1].loc if writes else d.loc),
                          "`def->%s` receives its value only after nested values have been read, but %s reads it (%s) from a definition "
                          "that a nested function may reference while it is unfinished: the comparison is made against the placeholder "
                          "and a function whose envs[] does not match its definition is accepted" % (field, fn.name, x.loc))
    chk.floor(rule, 3, len(readers))


def _funcdefnull_rule(chk, prog):
    """LB_FUNCTION enters a function in the lookup table with def == NULL and fills it in after the definition has
    been read; a reference inside that definition yields the function in that state.  Unmarshal code that takes a
    function out of a nested value must test its def before using it."""
    rule = "C10-FUNCDEFNULL"
    chk.rule(rule, "unmarshal code that dereferences the definition of a function it has just read tests it for NULL first")
    tu = prog.tus["marsh.c"]
    n = 0
    for fn in tu.funcs.values():
        if not fn.name.startswith("unmarshal_one"):
            continue
        # locals assigned from <function>->def
        defvars = set()
        for x in fn.nodes:
            if x.k in ("asg", "vardecl"):
                rhs = x.kids[-1] if x.kids else None
                if rhs is not None and strip_casts(rhs).k == "mem" and strip_casts(rhs).field == "def" and strip_casts(rhs).rec == "JanetFunction":
                    defvars.add(x.kids[0].name if x.k == "asg" and x.kids[0].k == "ref" else x.name)
        defvars.discard(None)
        uses = []
        for x in fn.nodes:
            if x.k == "mem" and x.rec == "JanetFuncDef":
                b = strip_casts(x.kids[0])
                if (b.k == "ref" and b.name in defvars) or (b.k == "mem" and b.field == "def" and b.rec == "JanetFunction"):
                    uses.append(x)
        if not uses:
            continue
        chk.analysed(fn)
        IN, T = flow.condition_facts(fn)
        seen = {}
        for x, S in flow.states_at(fn, IN, T):
            for u in uses:
                if x is u or any(y is u for y in x.walk()):
                    base = strip_casts(u.kids[0]).text()
                    ok = bool(S) and all(any(op == "!=" and ((l == base and r in ("NULL", "((void *)0)", "0", "")) or (r == base and l in ("NULL", "((void *)0)", "0")))
                                             for (op, l, r, toks, ln, rn) in ps) for ps in S)
                    seen[id(u)] = seen.get(id(u), True) and ok
        for u in uses:
            n += 1
            chk.instance(rule)
            if seen.get(id(u)):
                chk.ok(rule, "%s: `%s` after a NULL test" % (fn.name, u.text()))
            else:
                chk.violation(rule, "marsh.c", fn.name, "unchecked:" + u.text(), u.loc,
                              "`%s` dereferences the definition of a function taken from a nested value without a NULL test: a reference "
                              "to the function that is still being read has def == NULL (segfault inside unmarshal)" % u.text())
    chk.floor(rule, 3, n)


def _refindex_rule(chk, prog):
    """Back-references (LB_REFERENCE, LB_FUNCENV_REF, LB_FUNCDEF_REF) index the reader's tables of values, environments
    and definitions seen so far with a number taken from the image.  Read with readnat the number cannot be negative
    and an upper bound is enough; read with readint it is signed and needs both bounds - index -1 reads the vector's
    header words and installs them as a pointer."""
    rule = "C10-REFINDEX"
    chk.rule(rule, "a back-reference index read from the image is bounded on both sides before it subscripts the reader's lookup tables (readnat counts as the lower bound)")
    tu = prog.tus["marsh.c"]
    n = 0
    for fn in tu.funcs.values():
        sites = []
        for x in fn.nodes:
            if x.k == "sub" and x.kids[0].k == "mem" and x.kids[0].rec == "UnmarshalState" and x.kids[0].field.startswith("lookup") \
                    and strip_casts(x.kids[1]).k == "ref":
                sites.append(x)
        if not sites:
            continue
        chk.analysed(fn)
        src = {}
        for y in fn.nodes:
            if y.k == "vardecl" and y.kids and strip_casts(y.kids[0]).k == "call":
                src[y.name] = strip_casts(y.kids[0]).callee
            elif y.k == "asg" and y.op == "=" and y.kids[0].k == "ref" and strip_casts(y.kids[1]).k == "call":
                src[y.kids[0].name] = strip_casts(y.kids[1]).callee
        IN, T = flow.condition_facts(fn)
        seen = set()
        for x, S in flow.states_at(fn, IN, T):
            for sx in sites:
                if not (x is sx or any(y is sx for y in x.walk())):
                    continue
                if id(sx) in seen:
                    continue
                seen.add(id(sx))
                v = strip_casts(sx.kids[1]).name
                n += 1
                chk.instance(rule)
                signed = src.get(v) != "readnat"
                def has(ps, want):
                    for (op, l, r, toks, ln, rn) in ps:
                        if ln is None or rn is None:
                            continue
                        a, b = strip_casts(ln), strip_casts(rn)
                        if want == "lo" and a.k == "ref" and a.name == v and b.k == "int" and ((op == ">=" and b.v == 0) or (op == ">" and b.v == -1)):
                            return True
                        if want == "hi" and a.k == "ref" and a.name == v and op == "<":
                            return True
                        if want == "hi" and b.k == "ref" and b.name == v and op == ">":
                            return True
                    return False
                hi = bool(S) and all(has(ps, "hi") for ps in S)
                lo = (not signed) or (bool(S) and all(has(ps, "lo") for ps in S))
                if hi and lo:
                    chk.ok(rule, "%s: `%s` (%s) bounded %s" % (fn.name, sx.text(), src.get(v, "?"), "above; readnat is never negative" if not signed else "on both sides"))
                else:
                    chk.violation(rule, "marsh.c", fn.name, "index:" + sx.kids[0].field, sx.loc,
                                  "`%s` uses an index read with %s that is not bounded %s on every path: a negative back-reference reads "
                                  "the words in front of the table (its header, or NULL - 8 when the table is still empty) and installs "
                                  "them as an object pointer" % (sx.text(), src.get(v, "an unknown reader"), "below" if hi else "above"))
    chk.floor(rule, 3, n)


def _asmtuple_rule(chk, prog):
    """The assembler's input is arbitrary data.  Where it takes a tuple apart by position (tup[0], tup[1] ... of an
    instruction, a :sourcemap or a :symbolmap entry) the tuple's length has to be established first: an entry that is
    too short makes asm read the words behind the tuple and use them as integers or as a symbol pointer."""
    rule = "C10-ASMTUPLE"
    chk.rule(rule, "asm reads element k of an input tuple only on paths that established the tuple has more than k elements")
    tu = prog.tus["asm.c"]
    n = 0
    for fn in tu.funcs.values():
        tv = set()
        for x in fn.nodes:
            if x.k in ("asg", "vardecl") and x.kids:
                rhs = x.kids[-1]
                if any("janet_unwrap_tuple" in y.macro_names() or (y.k == "call" and y.callee == "janet_unwrap_tuple") for y in rhs.walk()):
                    tv.add(x.kids[0].name if x.k == "asg" and x.kids[0].k == "ref" else x.name)
        sites = [x for x in fn.nodes if x.k == "sub" and strip_casts(x.kids[0]).k == "ref" and strip_casts(x.kids[0]).name in tv
                 and strip_casts(x.kids[1]).k == "int"]
        if not sites:
            continue
        chk.analysed(fn)
        # janet_asm_error and friends end in longjmp without carrying the noreturn attribute
        IN, T = flow.condition_facts(fn, dead_calls=prog.is_noreturn)
        res = {}
        for x, S in flow.states_at(fn, IN, T):
            S = flow.live(S)
            for sx in sites:
                if x is sx:
                    v = strip_casts(sx.kids[0]).name
                    k = strip_casts(sx.kids[1]).v
                    def covers(ps):
                        for (op, l, r, toks, ln, rn) in ps:
                            if ln is None or v not in toks:
                                continue
                            if not any("janet_tuple_length" in y.macro_names() for y in ln.walk()):
                                continue
                            b = rn.v if rn is not None else 0
                            if b is None:
                                continue
                            if (op == "!=" and b == 0 and k == 0) or (op == ">=" and k < b) or (op == ">" and k <= b) or (op == "==" and k < b):
                                return True
                        return False
                    res[id(sx)] = res.get(id(sx), True) and all(covers(ps) for ps in S)
        done = set()
        for sx in sites:
            key = (sx.loc, sx.text())
            if key in done:
                continue
            done.add(key)
            n += 1
            chk.instance(rule)
            same = [y for y in sites if (y.loc, y.text()) == key]
            # copies of the expression inside branches the compiler folded away are in no CFG block: nothing to decide
            if all(res[id(y)] for y in same if id(y) in res):
                chk.ok(rule, "%s: `%s` after the length was checked" % (fn.name, sx.text()))
            else:
                chk.violation(rule, "asm.c", fn.name, "unchecked:%s@%s" % (sx.text(), sx.loc.split(":")[-1]), sx.loc,
                              "`%s` is read from a tuple of the input whose length was not established on this path: a shorter "
                              "tuple, e.g. (asm {:bytecode ['(retn)] :sourcemap [[]]}), makes asm read past it" % sx.text())
    chk.floor(rule, 8, n)


def _envfiber_rule(chk, prog):
    """`env->as` is a union: a fiber pointer while the environment lives on that fiber's stack (offset > 0), a values
    pointer once it is detached (offset == 0).  An image can put either kind anywhere - a frame's environment may be
    already detached, or invalid (janet_env_valid then empties it) - so following `as.fiber` is right only where the
    on-stack representation has been established on the path, not merely where janet_env_valid was called."""
    rule = "C10-ENVFIBER"
    chk.rule(rule, "the fiber member of an environment's union is followed only on paths that established offset > 0 for that environment (or that have just stored it)")
    n = 0
    for fn in prog.all_funcs():
        reads = []
        for x in fn.nodes:
            if x.k == "mem" and x.field == "fiber" and x.kids and x.kids[0].k == "mem" and x.kids[0].field == "as" and x.kids[0].rec == "JanetFuncEnv":
                p_ = x.parent
                if p_ is not None and p_.k == "asg" and p_.kids[0] is x:
                    continue            # a store
                reads.append(x)
        if not reads or fn.name == "janet_env_valid":
            continue
        chk.analysed(fn)
        stored = set()
        for x in fn.nodes:
            if x.k == "asg" and x.kids[0].k == "mem" and x.kids[0].field == "fiber" and x.kids[0].kids and x.kids[0].kids[0].k == "mem" and x.kids[0].kids[0].field == "as":
                stored.add(x.kids[0].kids[0].kids[0].text().replace(" ", ""))
        IN, T = flow.condition_facts(fn)
        res = {}
        for x, S in flow.states_at(fn, IN, T):
            for r in reads:
                if x is r:
                    e = r.kids[0].kids[0].text().replace(" ", "")
                    def onstack(ps):
                        for (op, l, rr, toks, ln, rn) in ps:
                            if ln is None:
                                continue
                            a = strip_casts(ln)
                            if a.k == "mem" and a.field == "offset" and a.kids[0].text().replace(" ", "") == e:
                                if (op == ">" and rn is not None and rn.v == 0) or (op == ">=" and rn is not None and (rn.v or 0) >= 1) or \
                                        (op == "!=" and (rn is None or rn.v == 0) and fn.name in ("janet_env_valid",)):
                                    return True
                        return False
                    res[id(r)] = bool(S) and all(onstack(ps) for ps in S)
        for r in reads:
            n += 1
            chk.instance(rule)
            e = r.kids[0].kids[0].text().replace(" ", "")
            if res.get(id(r)) or e in stored:
                chk.ok(rule, "%s: `%s` under offset > 0" % (fn.name, r.text()[:40]))
            else:
                chk.violation(rule, fn.tu.name, fn.name, "as.fiber:" + e, r.loc,
                              "`%s` follows the fiber member of the union without offset > 0 established on the path: for a detached "
                              "environment that word is a values pointer, for one that janet_env_valid has just emptied it is NULL - a "
                              "fiber image can attach either to a frame, and popping that frame crashes" % r.text()[:50])
    chk.floor(rule, 3, n)


def _fiberimage_rule(chk, prog):
    """What the interpreter takes on trust from a fiber's frames, and the reader therefore has to establish for a
    fiber that comes out of an image: (1) a fiber that can be resumed has a frame; (2) the bottom frame is an entrance
    frame - returning from it leaves the interpreter instead of continuing with a frame in front of the stack; (3) a
    frame that will be continued stopped at an instruction whose destination register exists (the value it is resumed
    with is stored there; janet_verify bounds that field only for opcodes that have one) and (4) that is not the last
    instruction (execution goes on with the next one)."""
    rule = "C10-FIBERIMAGE"
    chk.rule(rule, "unmarshal_one_fiber establishes what run_vm trusts about frames: a resumable fiber has a frame, the bottom frame is an entrance frame, a continued frame's pc has a destination register inside the frame and a successor instruction")
    fn = prog.need_func("unmarshal_one_fiber", "marsh.c")
    chk.analysed(fn)
    # conditions whose true branch raises
    guards = []
    for x in fn.nodes:
        if x.k == "if" and any(c.k == "call" and c.callee in ("janet_panic", "janet_panicf") for c in x.kids[1].walk()):
            guards.append(x.kids[0])
    def any_guard(pred):
        return next((g for g in guards if pred(g)), None)
    obligations = []
    # (1) no frames
    g = any_guard(lambda c: any(y.k == "bin" and y.op == "==" and any(strip_casts(k).k == "ref" and strip_casts(k).name == "frame" for k in y.kids)
                                and any(strip_casts(k).v == 0 for k in y.kids) for y in c.walk()))
    obligations.append(("no-frames", g, "a resumable fiber with frame == 0 is accepted: resuming it reads a frame header in front of the stack allocation"))
    # (2) entrance flag on the bottom frame: forced or demanded
    ent = [x for x in fn.nodes if x.k == "asg" and x.op in ("|=", "=") and any("JANET_STACKFRAME_ENTRANCE" in y.macro_names() for y in x.kids[1].walk())]
    entg = any_guard(lambda c: any("JANET_STACKFRAME_ENTRANCE" in y.macro_names() for y in c.walk()))
    under = None
    for e in ent:
        q = e.parent
        while q is not None and q.k != "if":
            q = q.parent
        if q is not None and any(y.k == "ref" and y.name == "prevframe" for y in q.kids[0].walk()):
            under = e
    obligations.append(("bottom-entrance", under or entg, "the bottom frame need not carry JANET_STACKFRAME_ENTRANCE: returning from it makes the interpreter continue with a frame header read from in front of the stack"))
    # (3) destination register of the instruction at pc
    g = any_guard(lambda c: any(y.k == "bin" and y.op == ">>" and strip_casts(y.kids[1]).v == 8 for y in c.walk())
                  and any(y.k == "mem" and y.field == "slotcount" for y in c.walk()))
    obligations.append(("dest-register", g, "the A field of the instruction a frame stopped at is not compared with slotcount: the value the frame is continued with is stored at stack[A], up to 255 slots above a one-slot frame"))
    # (4) successor instruction
    g = any_guard(lambda c: any(y.k == "bin" and y.op == "+" and any(strip_casts(k).k == "ref" and strip_casts(k).name == "pcdiff" for k in y.kids)
                                and any(strip_casts(k).v == 1 for k in y.kids) for y in c.walk())
                  and any(y.k == "mem" and y.field == "bytecode_length" for y in c.walk()))
    obligations.append(("next-instruction", g, "a continued frame may stop at the last instruction of its function: execution goes on with the word after the bytecode"))
    # (5) a relaxation of (3)/(4) for a frame parked on a tail call applies to the top frame only: a tail call replaces
    # its frame, so a lower frame at such an instruction is continued by its callee's return like any other
    tops = set(x.name for x in fn.nodes if x.k == "vardecl" and x.kids and any(
        y.k == "bin" and y.op == "==" and set(strip_casts(k).name for k in y.kids if strip_casts(k).k == "ref") == {"stack", "frame"}
        for y in x.kids[0].walk()))
    relax = [x for x in fn.nodes if x.k == "if" and any(y.k == "ref" and y.name == "JOP_TAILCALL" for y in x.kids[0].walk())
             and any(y.k == "asg" and y.op == "=" and strip_casts(y.kids[1]).v == 0 for y in x.kids[1].walk())]
    if relax:
        unguarded = [x for x in relax if not any(y.k == "ref" and y.name in tops for y in x.kids[0].walk())]
        obligations.append(("tailcall-top-only", None if unguarded else relax[0].kids[0],
                            "the pc checks are waived for every frame parked on JOP_TAILCALL, not only for the top one: a lower frame is continued "
                            "by its callee's return (store to stack[A], pc++) and can be made to run past the end of its bytecode"))
    # (6) the chain of children ends: janet_continue_signal walks it with `while (child->child)`
    walks = []
    for x in fn.nodes:
        if x.k in ("for", "while") and any(y.k == "mem" and y.field == "child" for y in x.walk()) \
                and any(y.k == "bin" and y.op == "==" and any(strip_casts(k).k == "ref" and strip_casts(k).name == "fiber" for k in y.kids) for y in x.walk()) \
                and any(c.k == "call" and c.callee in ("janet_panic", "janet_panicf") for c in x.walk()):
            walks.append(x)
    obligations.append(("child-acyclic", walks[0] if walks else None,
                        "a child reference that leads back to the fiber itself is accepted: janet_continue_signal walks fiber->child to the end "
                        "of the chain and never returns"))
    for key, g, why in obligations:
        chk.instance(rule)
        if g is not None:
            chk.ok(rule, "unmarshal_one_fiber: %s established (`%s`)" % (key, g.text()[:60]))
        else:
            chk.violation(rule, "marsh.c", "unmarshal_one_fiber", key, fn.loc, why)
    chk.floor(rule, 4)


def _asmarity_rule(chk, prog):
    """asm takes :arity, :min-arity and :max-arity from its input as any int32.  fiber/new and the call path use them
    as counts (janet_fiber(func, cap, min_arity, NULL) nil-fills min_arity slots), so each needs a lower bound."""
    rule = "C10-ASMARITY"
    chk.rule(rule, "janet_asm1 bounds each arity field it reads from the input from below (>= 0, or >= a field that is)")
    fn = prog.need_func("janet_asm1", "asm.c")
    chk.analysed(fn)
    lower = {}
    for x in fn.nodes:
        if x.k == "bin" and x.op in (">=", "<=", ">", "<") and "janet_asm_assert" in x.macro_names():
            a, b = strip_casts(x.kids[0]), strip_casts(x.kids[1])
            if x.op in ("<=", "<"):
                a, b = b, a             # normalise to a >= b
            if a.k == "mem" and a.rec == "JanetFuncDef" and a.field in ("arity", "min_arity", "max_arity"):
                if b.k == "int" and (b.v or 0) >= 0:
                    lower[a.field] = "0"
                elif b.k == "mem" and b.rec == "JanetFuncDef":
                    lower.setdefault(a.field, b.field)
    fields = [x.kids[0].field for x in fn.nodes if x.k == "asg" and x.kids[0].k == "mem" and x.kids[0].rec == "JanetFuncDef"
              and x.kids[0].field in ("arity", "min_arity", "max_arity") and any(y.k == "call" or "janet_unwrap_integer" in y.macro_names() for y in x.kids[1].walk())]
    if len(set(fields)) < 3:
        raise AnalysisBroken("janet_asm1: arity fields read from the input not found (%s)" % sorted(set(fields)))
    for f in sorted(set(fields)):
        chk.instance(rule)
        seen, cur = set(), f
        while cur in lower and lower[cur] != "0" and cur not in seen:
            seen.add(cur)
            cur = lower[cur]
        if lower.get(cur) == "0":
            chk.ok(rule, "janet_asm1: %s >= 0%s" % (f, "" if cur == f else " through %s" % cur))
        else:
            chk.violation(rule, "asm.c", "janet_asm1", "unbounded:" + f, fn.loc,
                          "`def->%s` comes from the input and is never bounded from below: (fiber/new (asm {:min-arity -100000 ...})) "
                          "passes it on as an argument count and the frame set-up writes in front of the fiber's stack" % f)
    chk.floor(rule, 3)


def _pegsigned_rule(chk, prog):
    """PEG operands are uint32 words; where the matcher reads one as a SIGNED number and indexes with it (the `argument`
    rule: extrav[index]), a word with the top bit set - which the image verifier does not mind - is a negative index."""
    rule = "C10-PEGSIGNED"
    chk.rule(rule, "an operand that the PEG matcher reads as a signed integer and uses as an index is bounded from below (in the matcher, or rejected by the image verifier)")
    tu = prog.tus["peg.c"]
    fn = next((f for f in tu.funcs.values() if f.name == "peg_rule"), None)
    ver = next((f for f in tu.funcs.values() if f.name == "peg_unmarshal"), None)
    if fn is None or ver is None:
        raise AnalysisBroken("peg_rule / peg_unmarshal not found")
    chk.analysed(fn)
    signed = {}
    for x in fn.nodes:
        if x.k == "vardecl" and x.kids and (x.t or "") in ("int32_t", "int") and \
                any(y.k == "cast" and (y.t or "").replace(" ", "") == "int32_t*" for y in x.kids[0].walk()) and \
                any(y.k == "ref" and y.name == "rule" for y in x.kids[0].walk()):
            signed[x.name] = x
    sites = [x for x in fn.nodes if x.k == "sub" and strip_casts(x.kids[1]).k == "ref" and strip_casts(x.kids[1]).name in signed]
    if not sites:
        raise AnalysisBroken("peg_rule: no signed operand used as an index any more (re-derive the rule)")
    # does the verifier reject a negative operand for that opcode (a signed comparison of the operand word with 0)
    ver_rejects = any(x.k == "bin" and x.op == "<" and strip_casts(x.kids[1]).v == 0 and x.kids[0].k == "cast" and "int32_t" in (x.kids[0].t or "")
                      and any(y.k == "ref" and y.name == "rule" for y in x.kids[0].walk()) for x in ver.nodes)
    IN, T = flow.condition_facts(fn)
    res = {}
    for x, S in flow.states_at(fn, IN, T):
        for sx in sites:
            if x is sx:
                v = strip_casts(sx.kids[1]).name
                res[id(sx)] = bool(S) and all(any(ln is not None and strip_casts(ln).k == "ref" and strip_casts(ln).name == v and
                                                  ((op == ">=" and rn is not None and rn.v == 0) or (op == ">" and rn is not None and rn.v == -1))
                                                  for (op, l, r, toks, ln, rn) in ps) for ps in S)
    for sx in sites:
        chk.instance(rule)
        if res.get(id(sx)):
            chk.ok(rule, "peg_rule: `%s` after a lower bound" % sx.text())
        elif ver_rejects and id(sx) not in res:
            chk.ok(rule, "peg_rule: `%s` (folded copy)" % sx.text())
        else:
            chk.violation(rule, "peg.c", "peg_rule", "signed-index:" + sx.text().replace(" ", ""), sx.loc,
                          "`%s` indexes with an operand read as int32 and bounded only from above: an image whose operand word has the "
                          "top bit set reads in front of the array (index -1 returns a forged value, a large one crashes)" % sx.text())
    chk.floor(rule, 1, len(sites))


def _envindex_rule(chk, prog):
    """JOP_CLOSURE builds a function from a definition whose environments[] entries say which of the CREATOR's
    environments to pass on.  janet_verify cannot know the creator, so this run-time test is the only upper bound on
    that index: it has to be strict (index < the creator's environment count), or the new closure takes the word behind
    the creator's function object as an environment pointer."""
    rule = "C10-ENVINDEX"
    chk.rule(rule, "run_vm indexes a function's envs[] with a value taken from a definition only on paths that established index < that function's environment count")
    fn = prog.need_func("run_vm", "vm.c")
    chk.analysed(fn)
    sites = [x for x in fn.nodes if x.k == "sub" and x.kids[0].k == "mem" and x.kids[0].field == "envs" and x.kids[0].rec == "JanetFunction"
             and strip_casts(x.kids[1]).k == "ref"]
    if not sites:
        raise AnalysisBroken("run_vm: no envs[] subscript with a variable index")
    IN, T = flow.condition_facts(fn, cap=24)
    res = {}
    for x, S in flow.states_at(fn, IN, T):
        for sx in sites:
            if x is sx:
                v = strip_casts(sx.kids[1]).name
                def strict(ps):
                    for (op, l, r, toks, ln, rn) in ps:
                        if ln is None or rn is None:
                            continue
                        a, b = strip_casts(ln), strip_casts(rn)
                        lenside = lambda e: any(y.k == "mem" and y.field == "environments_length" for y in e.walk()) or \
                            (e.k == "ref" and any(d.k == "vardecl" and d.name == e.name and d.kids and
                                                  any(y.k == "mem" and y.field == "environments_length" for y in d.kids[0].walk()) for d in fn.nodes))
                        if a.k == "ref" and a.name == v and op == "<" and lenside(b):
                            return True
                        if b.k == "ref" and b.name == v and op == ">" and lenside(a):
                            return True
                    return False
                res[id(sx)] = res.get(id(sx), True) and bool(S) and all(strict(ps) for ps in S)
    n = 0
    for sx in sites:
        if id(sx) not in res:
            continue
        lhs = sx.parent is not None and sx.parent.k == "asg" and sx.parent.kids[0] is sx
        v = strip_casts(sx.kids[1]).name
        if lhs and v == "i":
            continue                # the new function's own slots, filled in a loop over its own count
        n += 1
        chk.instance(rule)
        if res[id(sx)]:
            chk.ok(rule, "run_vm: `%s` under index < environments_length" % sx.text())
        else:
            chk.violation(rule, "vm.c", "run_vm", "envs-index:" + v, sx.loc,
                          "`%s` is reached without `%s < environments_length` of that function on every path (an off-by-one accepts the "
                          "index equal to the count): the closure takes the word behind the function object as a JanetFuncEnv pointer" % (sx.text(), v))
    chk.floor(rule, 1, n)


def _slotsign_rule(chk, prog):
    """Symbol maps (which register holds which named local, and from which pc to which) come out of asm input and out
    of images unchecked - janet_verify does not look at them - and are used only by the debugger, which bounds each
    slot index against the frame's slot count before it reads stack[slot].  The index is a uint32_t; the comparison
    has to stay unsigned (or be preceded by a sign test): converted to int32_t, an index of 2^31 or more is negative,
    passes `< slotcount`, and the read lands far outside the fiber's stack."""
    rule = "C10-SLOTSIGN"
    chk.rule(rule, "a symbol-map slot index is bounded against the slot count as an unsigned value: no comparison uses it converted to a signed type")
    n = 0
    for fn in prog.all_funcs():
        for x in fn.nodes:
            if x.k != "bin" or x.op not in ("<", "<=", ">", ">="):
                continue
            sides = [k for k in x.kids if any(y.k == "mem" and y.field == "slot_index" for y in k.walk())]
            if not sides or not any(y.k == "mem" and y.field == "slotcount" for k in x.kids for y in k.walk()):
                continue
            n += 1
            chk.instance(rule)
            chk.analysed(fn)
            k = sides[0]
            while k.k == "paren" and k.kids:
                k = k.kids[0]
            signed = k.k == "cast" and (k.t or "") in ("int32_t", "int", "long", "int64_t")
            if signed:
                chk.violation(rule, fn.tu.name, fn.name, "slot_index", x.loc,
                              "`%s` compares the symbol map's slot index after converting it to %s: an index of 2^31 or more (from an asm "
                              "input or an image) becomes negative, passes the bound, and debug/stack reads stack[index] far outside the "
                              "fiber's stack" % (x.text()[:60], k.t))
            else:
                chk.ok(rule, "%s: `%s` is an unsigned comparison" % (fn.name, x.text()[:50]))
    if n == 0:
        chk.note("%s: no comparison of a symbol-map slot index with a slot count in this tree (that missing bound is C10-SYMMAP's business); nothing to decide" % rule)
    chk.floor(rule, 0, n)
