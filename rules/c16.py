"""C16 - stream and subprocess I/O delivers every byte once, in order: structural clauses.

C16-RESULT    transfer syscalls: result stored, retried on EINTR, compared with -1, and used as the progress amount
C16-WAKE      an event callback that ends the wait (janet_async_end) also resumes or cancels the fiber on that path;
              closing a stream notifies both the reader and the writer
C16-PROGRESS  a local copy of the persistent transfer offset is stored back before the callback returns to wait again
"""
from jv import flow
from jv.facts import Program, AnalysisBroken
from jv.callgraph import CallGraph
from jv.util import is_ref, is_mem, strip_casts

EXPLANATION = (
    "Static rules on the stream state machines (ev.c, net.c, filewatch.c, os.c): every read/write/send/recv/"
    "sendto/recvfrom/accept/connect/waitpid result is stored, sits in an EINTR retry loop, is compared with -1 and "
    "feeds the progress variable; in every function used as an event callback each path that detaches the listener "
    "also wakes the fiber (a detached, unwoken fiber is suspended forever); closing a stream invokes the callback of "
    "both the reading and the writing fiber; a modified local copy of the persistent offset is written back on every "
    "path that returns to wait for the next event.  Completeness and order of the delivered bytes are runtime "
    "quantities and are not decided.")
ASSUMPTIONS = ["default Linux configuration (epoll)", "Windows IOCP branches are not parsed"]

TRANSFER = ("read", "write", "send", "recv", "sendto", "recvfrom")
OTHER = ("accept", "accept4", "connect", "waitpid")
UNITS = ["ev.c", "net.c", "os.c", "filewatch.c"]

# result deliberately not retried / not compared, with reason: (function, syscall)
RESULT_EXCEPTIONS = {
    ("janet_ev_post_event", "write"): "self-pipe write from any thread or signal handler: retried in its own loop on EINTR/EAGAIN, checked below",
    ("janet_thread_body", "write"): "self-pipe write of the completion message: own retry loop",
    ("janet_proc_gc", "waitpid"): "reaping of a collected, just-killed process in the finaliser; no fiber waits on it (that the wait blocks is checked by C20-REAP)",
    ("net_callback_accept", "accept4"): "non-blocking accept on a listening socket does not sleep, so it is not interrupted mid-call; "
                                        "on any failure the connection stays queued and the callback runs again on readiness",
    ("net_callback_accept", "accept"): "as accept4",
}


def _result_rule(chk, prog):
    rule = "C16-RESULT"
    chk.rule(rule, "transfer syscall results are stored, retried on EINTR, compared with -1 and used as progress")
    n = 0
    for unit in UNITS:
        for fn in prog.tus[unit].funcs.values():
            for c in fn.calls(*(TRANSFER + OTHER)):
                n += 1
                chk.instance(rule)
                chk.analysed(fn)
                key = (fn.name, c.callee)
                p = c.parent
                while p is not None and p.k == "cast":
                    p = p.parent
                var = None
                if p is not None and p.k == "asg" and p.op == "=" and is_ref(p.kids[0]):
                    var = p.kids[0].name
                elif p is not None and p.k == "vardecl":
                    var = p.name
                # RETRY_EINTR(rc, call) style macros also assign
                probs = []
                if var is None:
                    probs.append("its result is not stored")
                else:
                    loop = None
                    for a in c.ancestors():
                        if a.k in ("do", "while"):
                            cond = a.kids[1] if a.k == "do" else a.kids[0]
                            txt_has = any(x.k == "ref" and x.name == var for x in cond.walk()) and \
                                any("EINTR" in x.macro_names() or x.v == 4 for x in cond.walk())
                            if txt_has:
                                loop = a
                                break
                    if loop is None:
                        probs.append("it is not retried when interrupted (no loop on `%s == -1 && errno == EINTR`)" % var)
                    cmp_ = [x for x in fn.nodes if x.k == "bin" and x.op in ("==", "!=", "<", "<=", ">", ">=") and
                            is_ref(strip_casts(x.kids[0]), var) and strip_casts(x.kids[1]).v in (-1, 0)]
                    if not cmp_:
                        probs.append("`%s` is never compared with -1/0" % var)
                    if c.callee in TRANSFER:
                        used = [x for x in fn.nodes if x.k == "asg" and x.op in ("+=", "-=") and is_ref(strip_casts(x.kids[1]), var)]
                        ret = [x for x in fn.nodes if x.k == "return" and x.kids and any(is_ref(y, var) for y in x.kids[0].walk())]
                        # the amount bounds a scan of the data just read (buf + nread)
                        bound = [x for x in fn.nodes if x.k == "bin" and x.op == "+" and is_ref(strip_casts(x.kids[1]), var)]
                        if not used and not ret and not bound and fn.name.startswith(("ev_callback", "watcher_callback")):
                            probs.append("the number of bytes transferred (`%s`) does not flow into any progress variable" % var)
                if probs and key in RESULT_EXCEPTIONS:
                    chk.exception(rule, "%s:%s" % key, RESULT_EXCEPTIONS[key])
                    chk.ok(rule, "%s: %s (exception)" % key)
                elif probs:
                    chk.violation(rule, unit, fn.name, c.callee, c.loc,
                                  "%s(...) in %s: %s" % (c.callee, fn.name, "; ".join(probs)))
                else:
                    chk.ok(rule, "%s: %s result `%s` retried, checked and used" % (fn.name, c.callee, var))
    if n < 12:
        raise AnalysisBroken("only %d transfer/accept/connect/wait call sites found" % n)


def _callbacks(prog, cg):
    out = []
    for fid in sorted(cg.field_targets.get(("JanetFiber", "ev_callback"), ()), key=str):
        if fid in cg.funcs:
            out.append(cg.funcs[fid])
    if len(out) < 5:
        raise AnalysisBroken("only %d event callbacks found" % len(out))
    return out


def _wake_rule(chk, prog, cg):
    rule = "C16-WAKE"
    chk.rule(rule, "callbacks: every path that calls janet_async_end also schedules or cancels the fiber; close notifies reader and writer")
    WAKES = ("janet_schedule", "janet_schedule_signal", "janet_cancel", "janet_schedule_soon")
    for fn in _callbacks(prog, cg):
        chk.analysed(fn)
        ends = fn.calls("janet_async_end")
        if not ends:
            continue

        def transfer(facts, n):
            if n.k == "call" and n.callee in WAKES:
                return facts | frozenset(["woken"])
            if n.k == "call" and n.callee == "janet_async_end":
                return facts | frozenset(["ended"])
            return facts
        IN, OUT, T = flow.forward_paths(fn, frozenset(), transfer, None)
        # exits of the function
        st = IN.get(fn.exit)
        chk.instance(rule, len(ends))
        bad = st is not None and any("ended" in s and "woken" not in s for s in st)
        if bad:
            # find an offending async_end for the report
            chk.violation(rule, fn.tu.name, fn.name, "async_end-without-wake", ends[0].loc,
                          "some path through %s detaches the listener (janet_async_end) without resuming or cancelling the "
                          "fiber: it stays suspended forever" % fn.name)
        else:
            chk.ok(rule, "%s: %d janet_async_end sites, each with a wake on its path" % (fn.name, len(ends)), n=len(ends))
    # stream close notifies both machines
    sc = prog.need_func("janet_stream_close", "ev.c")
    chk.analysed(sc)
    bases = set()
    for (n, tgt, kind) in cg.sites.get(cg.fid(sc), ()):
        if kind == "field:JanetFiber.ev_callback":
            b = strip_casts(strip_casts(n.kids[0]).kids[0])
            if any(x.k == "ref" and x.name == "JANET_ASYNC_EVENT_CLOSE" for a in n.args for x in a.walk()):
                bases.add(b.text())
    for what in ("read_fiber", "write_fiber"):
        chk.instance(rule)
        src = None
        for nm in bases:
            # local rf/wf initialised from stream->read_fiber / write_fiber
            for x in sc.nodes:
                if x.k == "vardecl" and x.name == nm and x.kids and is_mem(strip_casts(x.kids[0]), what):
                    src = nm
            if what in nm:
                src = nm
        if src:
            chk.ok(rule, "janet_stream_close delivers CLOSE to the %s" % what)
        else:
            chk.violation(rule, "ev.c", "janet_stream_close", what, sc.loc,
                          "janet_stream_close no longer invokes the callback of stream->%s with JANET_ASYNC_EVENT_CLOSE: a fiber "
                          "blocked on the closed stream never wakes" % what)


def _progress_rule(chk, prog, cg):
    rule = "C16-PROGRESS"
    chk.rule(rule, "a modified local copy of a persistent transfer offset is stored back before the callback returns to wait")
    pairs = 0
    for fn in _callbacks(prog, cg):
        loads = {}
        for n in fn.nodes:
            src = None
            if n.k == "vardecl" and n.kids:
                dst, src = n.name, strip_casts(n.kids[0])
            elif n.k == "asg" and n.op == "=" and is_ref(n.kids[0]):
                dst, src = n.kids[0].name, strip_casts(n.kids[1])
            if src is not None and src.k == "mem" and src.d.get("arrow") and is_ref(strip_casts(src.kids[0]), "state"):
                loads[dst] = src.field
        stores = {}
        for n in fn.nodes:
            if n.k == "asg" and n.op == "=" and n.kids[0].k == "mem" and is_ref(strip_casts(n.kids[0].kids[0]), "state") \
                    and is_ref(strip_casts(n.kids[1])) and loads.get(strip_casts(n.kids[1]).name) == n.kids[0].field:
                stores[strip_casts(n.kids[1]).name] = n.kids[0].field
        tracked = {l: f for l, f in loads.items() if l in stores}
        if not tracked:
            continue
        chk.analysed(fn)

        def transfer(facts, n):
            if n.k == "call" and n.callee == "janet_async_end":
                return facts | frozenset(["ended"])
            if n.k == "asg" and is_ref(n.kids[0]) and n.kids[0].name in tracked:
                l = n.kids[0].name
                r = strip_casts(n.kids[1])
                if n.op == "=" and r.k == "mem" and r.field == tracked[l]:
                    return facts - frozenset([("dirty", l)])
                return facts | frozenset([("dirty", l)])
            if n.k == "asg" and n.op == "=" and n.kids[0].k == "mem" and is_ref(strip_casts(n.kids[0].kids[0]), "state") \
                    and is_ref(strip_casts(n.kids[1])) and tracked.get(strip_casts(n.kids[1]).name) == n.kids[0].field:
                return facts - frozenset([("dirty", strip_casts(n.kids[1]).name)])
            return facts
        IN, OUT, T = flow.forward_paths(fn, frozenset(), transfer, None)
        st = IN.get(fn.exit)
        for l, f in sorted(tracked.items()):
            pairs += 1
            chk.instance(rule)
            if st is not None and any(("dirty", l) in s and "ended" not in s for s in st):
                chk.violation(rule, fn.tu.name, fn.name, "%s->state.%s" % (l, f), fn.loc,
                              "on some path %s returns to wait for the next event with the advanced local `%s` not stored back "
                              "to state->%s: the next event repeats or skips bytes" % (fn.name, l, f))
            else:
                chk.ok(rule, "%s: `%s` is written back to state->%s before waiting again" % (fn.name, l, f))
    if pairs < 2:
        raise AnalysisBroken("only %d persistent-offset copies found" % pairs)


def _wstatus_rule(chk, prog):
    """POSIX: WEXITSTATUS(s) is meaningful only if WIFEXITED(s), WTERMSIG(s) only if WIFSIGNALED(s), WSTOPSIG(s)
    only if WIFSTOPPED(s).  A subprocess's exit code is reported exactly only if each accessor is applied on
    paths where its own predicate - and not merely a sibling's - was established."""
    rule = "C16-WSTATUS"
    chk.rule(rule, "wait-status accessors (WEXITSTATUS/WTERMSIG/WSTOPSIG) are applied only where their own predicate (WIFEXITED/WIFSIGNALED/WIFSTOPPED) holds")
    PRED = {"WEXITSTATUS": "WIFEXITED", "WTERMSIG": "WIFSIGNALED", "WSTOPSIG": "WIFSTOPPED"}
    n = 0

    def which(x, names):
        ms = x.macro_names()
        # the user-level macro is the outermost (last) one
        for m in reversed(ms):
            m = m.rstrip("@")
            if m in names:
                return m
            if not m.startswith("__"):
                return None
        return None

    for fn in prog.tus["os.c"].funcs.values():
        uses = {}
        for x in fn.nodes:
            a = which(x, PRED)
            if a and x.k == "bin":
                uses.setdefault((a, x.ln), x)
        if not uses:
            continue
        chk.analysed(fn)

        def transfer(st, x):
            return st

        def edge(st, blk, succ, cond, truth):
            c, t = flow.strip_not(flow.strip_expect(cond), truth)
            if c is None:
                return st
            p = which(c, set(PRED.values()))
            if p:
                return frozenset(f for f in st if f[0] != p) | {(p, t)}
            return st
        IN, OUT, T = flow.forward_paths(fn, frozenset(), transfer, edge=edge)
        done = set()
        for x, S in flow.states_at(fn, IN, T):
            a = which(x, PRED)
            if not a or x.k != "bin" or (a, x.ln) in done:
                continue
            done.add((a, x.ln))
            n += 1
            chk.instance(rule)
            bad = [ps for ps in S if (PRED[a], True) not in ps]
            if bad:
                held = sorted(p for p, t in bad[0] if t)
                chk.violation(rule, "os.c", fn.name, a, x.loc,
                              "%s() is applied on a path where %s() was not established (established there: %s): the reported "
                              "exit status of a subprocess is decoded with the wrong accessor" % (a, PRED[a], ", ".join(held) or "nothing"))
            else:
                chk.ok(rule, "%s: %s only under %s" % (fn.name, a, PRED[a]))
    chk.floor(rule, 2, n)


def _dispatch_rule(chk, prog):
    """One stream can have a reader fiber and a writer fiber at the same time (a duplex socket shared by two fibers).
    Streams are registered edge-triggered, so a readiness event is reported once: whoever hands events to the two
    listeners has to serve BOTH from the same event.  The writer's dispatch must not be reachable only when there is no
    reader (if/else-if), nor the other way round - the skipped side never sees that edge again and stays suspended."""
    rule = "C16-DISPATCH"
    chk.rule(rule, "readiness and close events are delivered to a stream's reader and writer independently of each other")
    tu = prog.tus["ev.c"]
    n = 0
    for fn in tu.funcs.values():
        roles = {}
        for x in fn.nodes:
            if x.k == "vardecl" and x.kids and strip_casts(x.kids[0]).k == "mem" and strip_casts(x.kids[0]).field in ("read_fiber", "write_fiber"):
                roles[x.name] = strip_casts(x.kids[0]).field
        if len(set(roles.values())) < 2:
            continue
        calls = []
        for x in fn.nodes:
            if x.k == "call" and x.callee is None and x.kids:
                c0 = strip_casts(x.kids[0])
                if c0.k == "mem" and c0.field == "ev_callback" and is_ref(strip_casts(c0.kids[0])) and strip_casts(c0.kids[0]).name in roles:
                    calls.append((x, strip_casts(c0.kids[0]).name))
        if not calls:
            continue
        chk.analysed(fn)
        IN, T = flow.condition_facts(fn)
        done = set()
        for x, S in flow.states_at(fn, IN, T):
            for (c, who) in calls:
                if x is not c or c.id in done:
                    continue
                done.add(c.id)
                n += 1
                chk.instance(rule)
                others = [v for v in roles if roles[v] != roles[who]]
                dep = None
                for o in others:
                    if S and all(any(f[0] == "==" and f[1] == o and (f[5] is None or f[5].v == 0) for f in ps) for ps in S):
                        dep = o
                if dep:
                    chk.violation(rule, "ev.c", fn.name, "%s-needs-no-%s" % (roles[who], roles[dep]), c.loc,
                                  "the event is passed to the stream's %s only on paths where `%s` (its %s) is NULL: with both a reader "
                                  "and a writer waiting on the stream one of them never receives the (edge-triggered) event" % (
                                      roles[who], dep, roles[dep]))
                else:
                    chk.ok(rule, "%s: %s dispatch at %s does not depend on the other listener" % (fn.name, roles[who], c.loc))
    chk.floor(rule, 6, n)


def run(chk):
    prog = Program.load("default")
    cg = CallGraph(prog)
    _result_rule(chk, prog)
    _wake_rule(chk, prog, cg)
    _progress_rule(chk, prog, cg)
    _wstatus_rule(chk, prog)
    _dispatch_rule(chk, prog)
    _solewaiter_rule(chk, prog)
    _closeboth_rule(chk, prog)
    _procclose_rule(chk, prog)
    _sigpipe_rule(chk, prog)
    _register_rule(chk, prog)
    _sideowner_rule(chk, prog)
    _markevent_rule(chk, prog)
    _regdir_rule(chk, prog)
    _unregister_rule(chk, prog)
    _timeoutarm_rule(chk, prog)
    _chunkmode_rule(chk, prog)
    _cloexec_rule(chk, prog)
    _exitstatus_rule(chk, prog)
    _spawnclose_rule(chk, prog)


def _solewaiter_rule(chk, prog):
    """A stream remembers ONE fiber per direction (read_fiber / write_fiber); readiness and close events go to that
    fiber only.  Storing a second fiber over one that is still waiting cuts the first one off from every event: it stays
    suspended for ever.  So the registration may overwrite the field only after looking at what is in it."""
    rule = "C16-SOLEWAITER"
    chk.rule(rule, "a fiber is registered as a stream's reader / writer only on paths that have examined the fiber already registered there")
    n = 0
    for fn in prog.all_funcs():
        stores = [x for x in fn.nodes if x.k == "asg" and x.op == "=" and x.kids[0].k == "mem" and x.kids[0].rec == "JanetStream"
                  and x.kids[0].field in ("read_fiber", "write_fiber") and strip_casts(x.kids[1]).v != 0]
        if not stores:
            continue
        chk.analysed(fn)
        IN, T = flow.condition_facts(fn)
        helpers = {}
        for x, S in flow.states_at(fn, IN, T):
            if x not in stores:
                continue
            n += 1
            chk.instance(rule)
            fld = x.kids[0].field
            ok = bool(S)
            for ps in S:
                good = False
                for (op, l, r, toks, ln, rn) in ps:
                    for side in (ln, rn):
                        if side is not None and any(y.k == "mem" and y.field == fld and y.rec == "JanetStream" for y in side.walk()):
                            good = True
                if not good:
                    ok = False
            if ok:
                chk.ok(rule, "%s: `%s` only after the current %s was examined" % (fn.name, x.text()[:40], fld))
            else:
                chk.violation(rule, fn.tu.name, fn.name, "overwrite:%s" % fld, x.loc,
                              "`%s` replaces the stream's %s without having looked at it on some path: if another fiber is parked there "
                              "it no longer receives any event for this stream and stays suspended for ever (two fibers reading, or two "
                              "writing under back-pressure, on one stream)" % (x.text()[:40], fld))
    chk.floor(rule, 2, n)


def _closeboth_rule(chk, prog):
    """janet_stream_close tells the parked reader and the parked writer that the stream is gone.  They are independent:
    whether the writer is told must not depend on whether there was a reader."""
    rule = "C16-CLOSEBOTH"
    chk.rule(rule, "closing a stream notifies its pending reader and its pending writer independently of each other")
    fn = prog.need_func("janet_stream_close", "ev.c")
    chk.analysed(fn)
    alias = {}
    for x in fn.nodes:
        if x.k == "vardecl" and x.kids and strip_casts(x.kids[0]).k == "mem" and strip_casts(x.kids[0]).field in ("read_fiber", "write_fiber"):
            alias[x.name] = strip_casts(x.kids[0]).field
    calls = []
    for x in fn.nodes:
        if x.k == "call" and x.callee is None and x.args:
            a0 = strip_casts(x.args[0])
            side = alias.get(a0.name) if is_ref(a0) else (a0.field if a0.k == "mem" else None)
            if side in ("read_fiber", "write_fiber"):
                calls.append((x, side))
    sides = set(side for _, side in calls)
    for want in ("read_fiber", "write_fiber"):
        if want not in sides:
            chk.instance(rule)
            chk.violation(rule, "ev.c", fn.name, "notify:%s:missing" % want, fn.loc,
                          "janet_stream_close has no close notification addressed to the stream's %s of its own (found: %s): with a "
                          "reader and a writer both parked, one of them is never told" % (want, sorted(sides) or "none"))
    for x, side in calls:
        chk.instance(rule)
        other = "write_fiber" if side == "read_fiber" else "read_fiber"
        dep = None
        p_ = x.parent
        child = x
        while p_ is not None:
            if p_.k == "if" and p_.kids and p_.kids[0] is not None and child is not p_.kids[0]:
                for y in p_.kids[0].walk():
                    if (y.k == "mem" and y.field == other) or (is_ref(y) and alias.get(y.name) == other):
                        dep = p_
            child, p_ = p_, p_.parent
        if dep is None:
            chk.ok(rule, "janet_stream_close: the %s is notified whatever the other side is" % side)
        else:
            chk.violation(rule, "ev.c", fn.name, "notify:%s" % side, x.loc,
                          "the close notification of the %s is nested under a test of the %s (%s): when both a reader and a writer are "
                          "parked on the stream, one of them is never told and stays suspended on a closed descriptor" % (side, other, dep.loc))


def _procclose_rule(chk, prog):
    """os/proc-close hands back the pipes to the child before anything else: a child reading its stdin to the end only
    exits once that pipe is closed, and whoever waits for the process (this call or an earlier os/proc-wait) depends on it."""
    rule = "C16-PROCCLOSE"
    chk.rule(rule, "os/proc-close gives up the process's pipes on every path before it returns")
    fn = next((f for f in prog.all_funcs() if f.name == "os_proc_close"), None)
    if fn is None:
        raise AnalysisBroken("os_proc_close not found")
    chk.analysed(fn)

    def transfer(st, x):
        # proc->flags &= ~(OWNS_STDIN | OWNS_STDOUT | OWNS_STDERR): the pipes have been dealt with
        if x.k == "asg" and x.op == "&=" and x.kids[0].k == "mem" and x.kids[0].field == "flags" and \
                any("OWNS_STD" in m for y in x.kids[1].walk() for m in y.macro_names()):
            return st | frozenset(["released"])
        return st
    IN, OUT = flow.forward(fn, frozenset(), transfer, lambda a, b: a & b)
    n = 0
    for x, st in flow.states_at(fn, IN, transfer):
        if x.k == "return":
            n += 1
            chk.instance(rule)
            if "released" in st:
                chk.ok(rule, "os_proc_close: return at %s after the pipes were given up" % x.loc)
            else:
                chk.violation(rule, fn.tu.name, fn.name, "return-before-release", x.loc,
                              "`%s` leaves os/proc-close on a path that has not closed the pipes it owns and cleared the OWNS flags: a child "
                              "reading its input to the end never sees end of file, never exits, and the fiber waiting for it hangs" % x.text()[:40])
    # the final wait (os_proc_wait_impl: suspends or returns the status) must come after the release as well
    for x, st in flow.states_at(fn, IN, transfer):
        if x.k == "call" and x.callee == "os_proc_wait_impl":
            n += 1
            chk.instance(rule)
            if "released" in st:
                chk.ok(rule, "os_proc_close: waits for the process after the pipes were given up")
            else:
                chk.violation(rule, fn.tu.name, fn.name, "wait-before-release", x.loc,
                              "os/proc-close starts waiting for the process before it has closed the pipes it owns")
    if n < 2:
        raise AnalysisBroken("os_proc_close: exits not recognised (%d)" % n)


def _sigpipe_rule(chk, prog):
    """write(2) on a pipe whose read end is closed raises SIGPIPE, whose default action ends the process - the write
    neither completes nor raises a Janet error.  Sockets are written with send(..., MSG_NOSIGNAL); a plain write on a
    stream descriptor is only safe if the process has arranged for SIGPIPE not to be delivered."""
    rule = "C16-SIGPIPE"
    chk.rule(rule, "a stream write that uses write(2) cannot end the process with SIGPIPE (the signal is ignored or blocked by the runtime)")
    sites = []
    for fn in prog.all_funcs():
        for c in fn.calls("write"):
            if c.args and any(y.k == "mem" and y.field == "handle" and y.rec == "JanetStream" for y in c.args[0].walk()):
                sites.append((fn, c))
    if not sites:
        raise AnalysisBroken("no write(2) on a stream handle found")
    protected = None
    for fn in prog.all_funcs():
        for c in fn.calls("signal", "sigaction", "sigaddset", "pthread_sigmask"):
            if c.args and (strip_casts(c.args[0]).v == 13 or any(strip_casts(a).v == 13 for a in c.args) or "SIGPIPE" in c.text()):
                protected = (fn, c)
    for fn, c in sites:
        chk.analysed(fn)
        chk.instance(rule)
        if protected:
            chk.ok(rule, "%s: write on a stream handle; SIGPIPE disposition set in %s" % (fn.name, protected[0].name))
        else:
            chk.violation(rule, fn.tu.name, fn.name, "write:SIGPIPE", c.loc,
                          "`%s` writes to a stream descriptor with write(2) and nothing in the runtime ignores or blocks SIGPIPE: "
                          "writing to a pipe whose reader has gone ends the whole process (exit 141) instead of raising an error in "
                          "the writing fiber" % c.text()[:50])


def _register_rule(chk, prog):
    """A stream's descriptor produces events only for the event loop it has been registered with.  Both ways of making a
    JanetStream - the constructor and unmarshalling one that another thread sent - create a new object around a new
    descriptor in the current thread, so both have to register it."""
    rule = "C16-REGISTER"
    chk.rule(rule, "every function that creates a JanetStream object registers it with the current thread's event loop before returning it")
    n = 0
    for fn in prog.tus["ev.c"].funcs.values():
        made = []
        for x in fn.nodes:
            if x.k == "vardecl" and x.kids and "JanetStream *" in (x.t or ""):
                r = strip_casts(x.kids[0])
                if r.k == "call" and r.callee in ("janet_abstract", "janet_unmarshal_abstract", "janet_abstract_threaded"):
                    made.append(x)
        if not made:
            continue
        chk.analysed(fn)

        def transfer(st, x):
            if x.k == "call" and x.callee in ("janet_register_stream", "janet_register_stream_impl"):
                return st | frozenset(["reg"])
            return st
        IN, OUT = flow.forward(fn, frozenset(), transfer, lambda a, b: a & b)
        for x, st in flow.states_at(fn, IN, transfer):
            if x.k == "return" and x.kids:
                n += 1
                chk.instance(rule)
                if "reg" in st:
                    chk.ok(rule, "%s: stream registered before it is returned" % fn.name)
                else:
                    chk.violation(rule, "ev.c", fn.name, "unregistered-return", x.loc,
                                  "%s returns a newly created JanetStream on a path that has not registered its descriptor with this "
                                  "thread's event loop: no readiness event will ever arrive for it, so a read or write that cannot complete "
                                  "at once waits for ever" % fn.name)
    chk.floor(rule, 2, n)


# functions that clear a stream side without looking at it first, and why that is right there
SIDEOWNER_UNGUARDED = {
    "janet_stream_ext": "the stream was just allocated: nobody is registered",
    "janet_stream_unmarshal": "a fresh copy in another thread: registrations are not carried over",
    "ev_callback_read": "an ev_callback runs only for the fiber that is registered on that side, and the read callback names its own side",
}


def _sideowner_rule(chk, prog):
    """A stream has one reader slot and one writer slot.  A cancelled waiter that has not run yet can be replaced in its
    slot by a new fiber, so a fiber that detaches may no longer own either slot.  Clearing a slot is therefore tied to
    a test of THAT slot (it still holds this fiber / it holds a fiber that was just notified): clearing `the other
    one` wipes the registration of whoever took the place, and that fiber waits for ever."""
    rule = "C16-SIDEOWNER"
    chk.rule(rule, "a stream's read_fiber / write_fiber slot is cleared only on a path that examined that same slot")
    n = 0
    for fn in prog.tus["ev.c"].funcs.values():
        stores = [x for x in fn.nodes if x.k == "asg" and x.op == "=" and x.kids[0].k == "mem" and x.kids[0].field in ("read_fiber", "write_fiber")
                  and x.kids[0].rec == "JanetStream" and (strip_casts(x.kids[1]).v == 0 or strip_casts(x.kids[1]).text() in ("NULL", "((void *)0)"))]
        if not stores:
            continue
        chk.analysed(fn)
        # locals loaded from a slot
        loaded = {}
        for y in fn.nodes:
            if y.k == "vardecl" and y.kids:
                r = strip_casts(y.kids[0])
                if r.k == "mem" and r.field in ("read_fiber", "write_fiber") and r.rec == "JanetStream":
                    loaded[y.name] = r.field
        IN, T = flow.condition_facts(fn)
        res = {}
        for x, S in flow.states_at(fn, IN, T):
            if x in stores:
                side = x.kids[0].field
                def examined(ps):
                    for (op, l, r, toks, ln, rn) in ps:
                        for e in (ln, rn):
                            if e is None:
                                continue
                            for y in e.walk():
                                if y.k == "mem" and y.field == side and y.rec == "JanetStream":
                                    return True
                                if y.k == "ref" and loaded.get(y.name) == side:
                                    return True
                    return False
                res[id(x)] = bool(S) and all(examined(ps) for ps in S)
        for x in stores:
            n += 1
            chk.instance(rule)
            if res.get(id(x)):
                chk.ok(rule, "%s: `%s` after a test of that slot" % (fn.name, x.text()[:50]))
            elif fn.name in SIDEOWNER_UNGUARDED:
                chk.exception(rule, "%s:%s" % (fn.name, x.kids[0].field), SIDEOWNER_UNGUARDED[fn.name])
            else:
                chk.violation(rule, "ev.c", fn.name, "blind-clear:" + x.kids[0].field, x.loc,
                              "`%s` clears the slot on a path that never looked at it: when the detaching fiber was cancelled and another "
                              "fiber has since registered there, the newcomer's registration is wiped and no event is ever delivered to it" % x.text()[:60])
    chk.floor(rule, 7, n)


def _markevent_rule(chk, prog):
    """The collector calls every pending operation's callback with JANET_ASYNC_EVENT_MARK so that it can mark what its
    state holds.  That event says nothing about the descriptor.  A callback that lets MARK fall into its completion
    code finishes the operation during a collection: net/connect returned a stream that was not connected yet."""
    rule = "C16-MARKEVENT"
    chk.rule(rule, "no event-loop callback can reach a completion (janet_schedule / janet_cancel / janet_async_end) from the collector's MARK event")
    ACTIONS = ("janet_schedule", "janet_schedule_signal", "janet_schedule_soon", "janet_cancel", "janet_async_end", "janet_async_in_flight")
    n = 0
    for fn in prog.all_funcs():
        ps = fn.params
        if not (len(ps) == 2 and "JanetAsyncEvent" in ps[1]["t"] and "JanetFiber" in ps[0]["t"]):
            continue
        n += 1
        chk.instance(rule)
        chk.analysed(fn)
        labelled = [(b, b.label.text()) for b in fn.blocks.values() if b.label is not None and b.label.k in ("case", "default")]
        if not labelled:
            raise AnalysisBroken("%s: no switch over the event" % fn.name)
        start = [b for b, t in labelled if "JANET_ASYNC_EVENT_MARK" in t] or [b for b, t in labelled if t.startswith("default")]
        if not start:
            # no arm for MARK and no default: control goes past the switch
            sw = [x for x in fn.nodes if x.k == "switch"]
            raise AnalysisBroken("%s: neither a MARK arm nor a default arm" % fn.name) if not sw else None
        hit = None
        for b0 in start:
            for bid in flow.reachable_from(fn, b0.id):
                blk = fn.blocks[bid]
                for x in blk.elems:
                    if x.k == "call" and x.callee in ACTIONS and hit is None:
                        hit = x
        if hit is None:
            chk.ok(rule, "%s: MARK leads to no completion" % fn.name)
        else:
            chk.violation(rule, fn.tu.name, fn.name, "mark-completes", hit.loc,
                          "in %s the collector's MARK event %s reaches `%s`: a collection while the operation is pending completes it "
                          "with whatever the descriptor says at that moment (net/connect returns an unconnected stream) and detaches "
                          "the fiber from inside the mark phase" % (fn.name, "(handled by the default arm)" if "MARK" not in start[0].label.text() else "",
                                                                   hit.text()[:50]))
    chk.floor(rule, 5, n)


def _flagnames(e):
    return set(m for y in e.walk() for m in y.macro_names() if m.startswith("JANET_STREAM_"))


def _regdir_rule(chk, prog):
    """A stream is registered with the poller once, for the directions its flags promise (readable / acceptable ->
    input events, writable -> output events).  An operation waits for an event of its direction whenever the system
    call would block.  So every kind of stream an operation accepts must have been registered for that operation's
    direction - otherwise the first EAGAIN parks the fiber for an event that is never delivered."""
    rule = "C16-REGDIR"
    chk.rule(rule, "every kind of socket stream an operation accepts was registered with the poller for that operation's direction")
    reg = None
    for f in prog.tus["ev.c"].funcs.values():
        if f.name == "janet_register_stream_impl":
            reg = f
    if reg is None:
        # the poll(2) backend has no registration step: it builds the event mask for every wait from the fibers that
        # are parked on the stream (C16-DISPATCH decides that side)
        if any("POLLOUT" in y.macro_names() for f in prog.tus["ev.c"].funcs.values() for y in f.nodes):
            chk.note("C16-REGDIR: this configuration polls per pending fiber (no registration function); nothing to decide")
            chk.floor(rule, 0, 0)
            return
        raise AnalysisBroken("janet_register_stream_impl not found")
    chk.analysed(reg)
    masks = {}
    for x in reg.nodes:
        if x.k == "if":
            body_macros = set(m for y in x.kids[1].walk() for m in y.macro_names())
            cond = _flagnames(x.kids[0])
            for ev, d in (("EPOLLOUT", "write"), ("EPOLLIN", "read"), ("EVFILT_WRITE", "write"), ("EVFILT_READ", "read")):
                if ev in body_macros and cond:
                    masks[d] = cond
    if set(masks) != {"read", "write"}:
        chk.note("C16-REGDIR: the poller of this configuration registers every stream for both directions; nothing to decide")
        chk.floor(rule, 0, 0)
        return
    net = prog.tus["net.c"]
    creations = []
    for f in net.funcs.values():
        for c in f.calls("make_stream"):
            names = _flagnames(c.args[1])
            if names:
                creations.append((f, c, names | {"JANET_STREAM_SOCKET"}))
    WRITE = ("janet_ev_write_buffer", "janet_ev_write_string", "janet_ev_send_buffer", "janet_ev_send_string", "janet_ev_sendto_buffer", "janet_ev_sendto_string")
    READ = ("janet_ev_read", "janet_ev_readchunk", "janet_ev_recv", "janet_ev_recvchunk", "janet_ev_recvfrom", "janet_sched_accept")
    ops = []
    for f in net.funcs.values():
        chk_calls = f.calls("janet_stream_flags")
        if not chk_calls:
            continue
        need = _flagnames(chk_calls[0].args[1])
        d = "write" if f.calls(*WRITE) else "read" if f.calls(*READ) else None
        if d:
            ops.append((f, need, d))
    if len(creations) < 4 or len(ops) < 6:
        raise AnalysisBroken("net.c: %d stream creations, %d operations recognised" % (len(creations), len(ops)))
    n = 0
    for (cf, c, have) in creations:
        for (of, need, d) in ops:
            if not need <= have:
                continue
            n += 1
            chk.instance(rule)
            if have & masks[d]:
                chk.ok(rule, "%s on a stream made with %s: registered for %s events" % (of.name, sorted(have), d))
            else:
                chk.violation(rule, "net.c", of.name, "%s:%s" % (d, "+".join(sorted(x.replace("JANET_STREAM_", "") for x in have))), c.loc,
                              "%s accepts the stream created at %s (flags %s) and waits for %s events when the call would block, but "
                              "janet_register_stream_impl asks the poller for %s events only for streams with %s: the fiber is parked "
                              "for an event that never comes (net/send-to on a datagram listener hangs once the peer's queue is full)" % (
                                  of.name, c.loc, sorted(x.replace("JANET_STREAM_", "") for x in have), d, d,
                                  sorted(x.replace("JANET_STREAM_", "") for x in masks[d])))
    chk.floor(rule, 7, n)


def _unregister_rule(chk, prog):
    """Registering a stream hands the poller a pointer to the stream object.  With epoll the registration lives as
    long as the open file DESCRIPTION, which can outlive the descriptor the stream closes (ev/to-file duplicates it, a
    child inherits it), so closing the descriptor is not enough: without an explicit EPOLL_CTL_DEL the kernel reports
    a later event with a pointer to a stream that the collector has freed."""
    rule = "C16-UNREGISTER"
    chk.rule(rule, "the function that closes a stream's descriptor first takes back what registration gave the poller (EPOLL_CTL_DEL before close; the poll back end's table entry)")
    ev = prog.tus["ev.c"]
    reg = next((f for f in ev.funcs.values() if f.name == "janet_register_stream_impl"), None)
    cl = next((f for f in ev.funcs.values() if f.name == "janet_stream_close_impl"), None)
    if cl is None:
        raise AnalysisBroken("janet_stream_close_impl not found")
    chk.analysed(cl)
    chk.instance(rule)
    closes = cl.calls("close")
    if not closes:
        raise AnalysisBroken("janet_stream_close_impl: close(2) call not found")
    order = {id(x): i for i, x in enumerate(cl.nodes)}
    if reg is not None and reg.calls("epoll_ctl"):
        chk.analysed(reg)
        dels = [c for c in cl.calls("epoll_ctl") if any("EPOLL_CTL_DEL" in y.macro_names() or y.v == 2 for y in c.args[1].walk())]
        if dels and all(order[id(d)] < order[id(c)] for d in dels[:1] for c in closes):
            chk.ok(rule, "janet_stream_close_impl: EPOLL_CTL_DEL before close")
        else:
            chk.violation(rule, "ev.c", "janet_stream_close_impl", "no-epoll-del", closes[0].loc,
                          "janet_register_stream_impl gives epoll a pointer to the stream (ev.data.ptr), but closing only calls close(2): "
                          "when another descriptor still refers to the same open file description (ev/to-file, an inherited fd) the "
                          "registration survives, and after the stream has been collected the next event dereferences freed memory")
    else:
        # poll back end: the table entry is the registration
        if any(x.k == "asg" and any(y.k == "mem" and y.field == "streams" and y.rec == "JanetVM" for y in x.kids[0].walk()) for x in cl.nodes):
            chk.ok(rule, "janet_stream_close_impl: the stream's slot in janet_vm.streams is swapped out")
        else:
            chk.violation(rule, "ev.c", "janet_stream_close_impl", "no-table-removal", closes[0].loc,
                          "closing a stream leaves its entry in janet_vm.streams")
    chk.floor(rule, 1)


STARTERS = ("janet_ev_read", "janet_ev_readchunk", "janet_ev_recv", "janet_ev_recvchunk", "janet_ev_recvfrom",
            "janet_ev_write_buffer", "janet_ev_write_string", "janet_ev_send_buffer", "janet_ev_send_string",
            "janet_ev_sendto_buffer", "janet_ev_sendto_string", "janet_sched_accept", "net_sched_connect")


def _timeoutarm_rule(chk, prog):
    """The stream functions take an optional timeout.  Every branch that starts the operation has to arm it first
    (unless it is infinite): the starter never returns, so a branch that forgets suspends the fiber for as long as
    the peer stays silent, whatever timeout the caller gave."""
    rule = "C16-TIMEOUTARM"
    chk.rule(rule, "a stream function that was given a timeout arms it on every path that starts the operation (or the timeout is infinite on that path)")
    n = 0
    for tun in ("ev.c", "net.c"):
        for fn in prog.tus[tun].funcs.values():
            tos = [x.name for x in fn.nodes if x.k == "vardecl" and x.kids and (x.t or "") == "double" and
                   any(y.k == "call" and y.callee == "janet_optnumber" for y in x.kids[0].walk())]
            starts = [c for c in fn.nodes if c.k == "call" and c.callee in STARTERS]
            if not tos or not starts or not fn.calls("janet_addtimeout", "janet_addtimeout_nil"):
                continue
            to = tos[0]
            chk.analysed(fn)

            def transfer(st, x):
                if x.k == "call" and x.callee in ("janet_addtimeout", "janet_addtimeout_nil"):
                    return st | {"armed"}
                return st

            def edge(st, blk, succ, cond, truth, to=to):
                c = flow.compare_of(cond, truth)
                if c is None or c[2] is None:
                    return st
                l, op, r = strip_casts(c[0]), c[1], strip_casts(c[2])
                if is_ref(l, to) and op == "==" and ("INFINITY" in r.macro_names() or "inf" in r.text().lower() or "HUGE" in r.text()):
                    return st | {"inf"}
                return st
            IN, OUT, T = flow.forward_paths(fn, frozenset(), transfer, edge)
            for x, S in flow.states_at(fn, IN, T):
                if x in starts:
                    n += 1
                    chk.instance(rule)
                    if S and all(("armed" in ps or "inf" in ps) for ps in S):
                        chk.ok(rule, "%s: `%s` with the timeout armed" % (fn.name, x.text()[:40]))
                    else:
                        chk.violation(rule, tun, fn.name, "unarmed:" + x.callee, x.loc,
                                      "`%s` starts the operation on a path that did not arm the caller's timeout `%s`: the call then "
                                      "waits for as long as the peer stays silent" % (x.text()[:50], to))
    chk.floor(rule, 10, n)


def _chunkmode_rule(chk, prog):
    """ev/chunk and net/chunk promise exactly n bytes unless the stream ends.  That is the job of the chunk variants of
    the read starters (they keep reading until the count is reached); the plain variants return after the first
    successful read, however short."""
    rule = "C16-CHUNKMODE"
    chk.rule(rule, "the chunk functions start their read with a chunk-mode starter")
    n = 0
    for tun in ("ev.c", "net.c"):
        for fn in prog.tus[tun].funcs.values():
            if "chunk" not in fn.name or not fn.is_cfun_sig():
                continue
            starts = [c for c in fn.nodes if c.k == "call" and c.callee in STARTERS]
            if not starts:
                continue
            chk.analysed(fn)
            for c in starts:
                n += 1
                chk.instance(rule)
                if c.callee.endswith("chunk"):
                    chk.ok(rule, "%s: %s" % (fn.name, c.callee))
                else:
                    chk.violation(rule, tun, fn.name, "plain-read:" + c.callee, c.loc,
                                  "%s starts its read with %s, which completes after the first successful read: when the bytes arrive in "
                                  "more than one piece the chunk comes back short and the rest is given to the next read" % (fn.name, c.callee))
    # a read that understands :all ("until the stream ends") is a chunk-mode read with no bound: the branch taken for
    # that keyword has to start with a chunk-mode starter as well
    for tun in ("ev.c", "net.c"):
        for fn in prog.tus[tun].funcs.values():
            alls = [c for c in fn.nodes if c.k == "call" and c.callee == "janet_keyeq" and len(c.args) > 1 and "all" in c.args[1].text()]
            if not alls or not fn.is_cfun_sig():
                continue
            chk.analysed(fn)
            for c in alls:
                n += 1
                chk.instance(rule)
                q = c.parent
                while q is not None and q.k != "if":
                    q = q.parent
                ok = q is not None and any(z is c for z in q.kids[0].walk()) and any(
                    y.k == "call" and y.callee in STARTERS and y.callee.endswith("chunk") for y in q.kids[1].walk())
                if ok:
                    chk.ok(rule, "%s: :all starts a chunk-mode read" % fn.name)
                else:
                    chk.violation(rule, tun, fn.name, ":all", c.loc,
                                  "%s recognises :all but the read it starts for it is not a chunk-mode one: it completes on the first readiness "
                                  "event that delivers any bytes, and what the peer sends afterwards is not part of the result" % fn.name)
    chk.floor(rule, 4, n)


FD_CREATORS = {"socket": 1, "accept4": 3, "epoll_create1": 0, "timerfd_create": 1, "inotify_init1": 0, "open": 1,
               "pipe2": 1, "eventfd": 1, "signalfd": 2, "memfd_create": 1}


def _cloexec_rule(chk, prog):
    """A descriptor the runtime opens for itself must not survive into the programs it starts: a child that holds a
    copy of a connection keeps it open after the parent's close (the peer never sees end-of-stream), and a child
    holding the loop's own pipe can stall it.  Every creating call that takes a flags argument therefore asks for
    close-on-exec there; the one pipe() in janet_make_pipe sets it per end according to `mode`, and a caller that keeps
    both ends (the event loop's self-pipe) completes it with fcntl.  dup() has no flags argument and is not covered."""
    rule = "C16-CLOEXEC"
    chk.rule(rule, "every descriptor-creating call with a flags argument requests close-on-exec, and the event loop's self-pipe is close-on-exec at both ends")
    n = 0
    for fn in prog.all_funcs():
        for c in fn.nodes:
            if c.k != "call" or c.callee not in FD_CREATORS:
                continue
            idx = FD_CREATORS[c.callee]
            if idx >= len(c.args):
                continue
            n += 1
            chk.instance(rule)
            chk.analysed(fn)
            a = c.args[idx]
            names = set()
            for y in a.walk():
                names.update(m.rstrip("@") for m in y.macro_names())
                if y.k == "ref":
                    names.add(y.name)
            ok = any(m.endswith("CLOEXEC") for m in names)
            if not ok:
                # a flags variable that is or-ed with *_CLOEXEC somewhere in the function
                for y in a.walk():
                    if y.k == "ref" and any(x.k == "asg" and x.op in ("|=", "=") and is_ref(x.kids[0]) and x.kids[0].name == y.name
                                            and any(m.rstrip("@").endswith("CLOEXEC") for z in x.kids[1].walk() for m in z.macro_names())
                                            for x in fn.nodes):
                        ok = True
            if ok:
                chk.ok(rule, "%s: %s(...) requests close-on-exec" % (fn.name, c.callee))
            else:
                chk.violation(rule, fn.tu.name, fn.name, c.callee, c.loc,
                              "`%s` creates a descriptor without a close-on-exec flag: every subprocess started afterwards inherits it - a child "
                              "that outlives a connection keeps it open after the parent closed it, and the peer's read is not woken" % c.text()[:70])
    # the self-pipe
    sp = prog.need_func("janet_ev_setup_selfpipe", "ev.c")
    mk = prog.need_func("janet_make_pipe", "ev.c")
    chk.analysed(sp)
    n += 1
    chk.instance(rule)
    calls = sp.calls("janet_make_pipe")
    if not calls:
        raise AnalysisBroken("janet_ev_setup_selfpipe no longer calls janet_make_pipe")
    mode = strip_casts(calls[0].args[1]).v

    def excluded_modes(setfl_macro, which):
        """modes for which janet_make_pipe does NOT call fcntl(handles[which], <cmd>, ...)"""
        out = None
        for x in mk.nodes:
            if x.k == "if":
                fc = [q for q in x.kids[0].walk() if q.k == "call" and q.callee == "fcntl"]
                if not fc or len(fc[0].args) < 3:
                    continue
                a0 = fc[0].args[0]
                if not any(strip_casts(z).v == which for y in a0.walk() if y.k == "sub" for z in y.kids[1:]):
                    continue
                if setfl_macro not in set(m.rstrip("@") for y in fc[0].args[1].walk() for m in y.macro_names()) and \
                        not any(y.k == "ref" and y.name == setfl_macro for y in fc[0].args[1].walk()):
                    continue
                out = set(strip_casts(q.kids[1]).v for q in x.kids[0].walk() if q.k == "bin" and q.op == "!=" and
                          is_ref(strip_casts(q.kids[0])) and strip_casts(q.kids[0]).name == mk.params[1]["n"])
        return out
    ends = {}
    for which in (0, 1):
        ex = excluded_modes("F_SETFD", which)
        if ex is None:
            raise AnalysisBroken("janet_make_pipe: the FD_CLOEXEC call for handles[%d] was not recognised" % which)
        ends[which] = mode not in ex
    completes = set()
    for q in sp.calls("fcntl"):
        if len(q.args) >= 3 and any(m.rstrip("@") == "FD_CLOEXEC" for y in q.args[2].walk() for m in y.macro_names()) or \
                any(y.k == "ref" and y.name == "FD_CLOEXEC" for y in q.walk()):
            for y in q.args[0].walk():
                if y.k == "sub":
                    v = strip_casts(y.kids[1]).v
                    if v is not None:
                        completes.add(v)
    open_ends = [w for w in (0, 1) if not ends[w] and w not in completes]
    if open_ends:
        chk.violation(rule, "ev.c", sp.name, "selfpipe", calls[0].loc,
                      "the event loop's self-pipe is made with mode %s, which leaves end %s inheritable, and janet_ev_setup_selfpipe does not set "
                      "FD_CLOEXEC on it: every subprocess gets a descriptor onto the parent's completion pipe" % (mode, open_ends))
    else:
        chk.ok(rule, "self-pipe: mode %s plus fcntl leaves neither end inheritable" % mode)
    chk.floor(rule, 7, n)


def selfpipe_write_end_nonblocking(prog):
    """(mode literal, True/False/None, call node): does janet_make_pipe(selfpipe, mode) make handles[1] O_NONBLOCK?"""
    sp = prog.need_func("janet_ev_setup_selfpipe", "ev.c")
    mk = prog.need_func("janet_make_pipe", "ev.c")
    calls = sp.calls("janet_make_pipe")
    if not calls:
        raise AnalysisBroken("janet_ev_setup_selfpipe no longer calls janet_make_pipe")
    mode = strip_casts(calls[0].args[1]).v
    ex = None
    for x in mk.nodes:
        if x.k != "if":
            continue
        fc = [q for q in x.kids[0].walk() if q.k == "call" and q.callee == "fcntl"]
        if not fc or len(fc[0].args) < 3:
            continue
        if not any(strip_casts(z).v == 1 for y in fc[0].args[0].walk() if y.k == "sub" for z in y.kids[1:]):
            continue
        cmd = set(m.rstrip("@") for y in fc[0].args[1].walk() for m in y.macro_names()) | set(y.name for y in fc[0].args[1].walk() if y.k == "ref")
        if "F_SETFL" not in cmd:
            continue
        ex = set(strip_casts(q.kids[1]).v for q in x.kids[0].walk() if q.k == "bin" and q.op == "!=" and
                 is_ref(strip_casts(q.kids[0])) and strip_casts(q.kids[0]).name == mk.params[1]["n"])
    if ex is None:
        return mode, None, calls[0]
    return mode, mode not in ex, calls[0]


def _exitstatus_rule(chk, prog):
    """JANET_PROC_WAITED says "this process has been reaped": (p :return-code) answers from proc->return_code from
    then on and a second os/proc-wait is refused.  The flag and the status therefore go together - also when the fiber
    that asked has meanwhile given up (deadline, cancel): the child is reaped exactly once, and a status dropped then is
    gone for good."""
    rule = "C16-EXITSTATUS"
    chk.rule(rule, "every path that marks a process as waited (JANET_PROC_WAITED) has stored its exit status in return_code")
    tu = prog.tus["os.c"]
    n = 0
    for fn in tu.funcs.values():
        def sets_waited(x):
            return x.k == "asg" and x.op == "|=" and x.kids[0].k == "mem" and x.kids[0].field == "flags" and \
                any("JANET_PROC_WAITED" in y.macro_names() or (y.k == "ref" and y.name == "JANET_PROC_WAITED") for y in x.kids[1].walk())

        def stores_rc(x):
            return x.k == "asg" and x.op == "=" and x.kids[0].k == "mem" and x.kids[0].field == "return_code"
        if not any(sets_waited(x) for x in fn.nodes):
            continue
        n += 1
        chk.instance(rule)
        chk.analysed(fn)

        def transfer(st, x):
            if sets_waited(x):
                st = st | {"waited"}
            if stores_rc(x):
                st = st | {"rc"}
            return st
        IN, OUT, T = flow.forward_paths(fn, frozenset(), transfer)
        bad = None
        for b, kind in flow.exits(fn):
            if b.id not in OUT:
                continue
            for ps in OUT[b.id]:
                if "waited" in ps and "rc" not in ps:
                    bad = b
        if bad is None:
            chk.ok(rule, "%s: WAITED and return_code are set together" % fn.name)
        else:
            last = bad.elems[-1] if bad.elems else fn
            chk.violation(rule, "os.c", fn.name, "return_code", last.loc,
                          "%s can finish (near %s) with JANET_PROC_WAITED set and return_code not stored: when the waiting fiber has gone (deadline, "
                          "cancel) before the child exits, the child is reaped but its status is lost - (p :return-code) stays nil and a second "
                          "os/proc-wait is refused" % (fn.name, last.loc))
    chk.floor(rule, 1, n)


def _spawnclose_rule(chk, prog):
    """The child's descriptors are set up by a list of actions that posix_spawn performs in order: dup2(src, 0/1/2) for
    each redirection, and close(src) when the source is no longer needed.  Two redirections may name the same handle
    ({:in f :err f}), so a close is safe only if no LATER dup2 uses a source that may be the same descriptor: the
    close has to sit under a test that its handle differs from each of those sources.  Otherwise the later dup2 fails
    with EBADF and the program is never started."""
    rule = "C16-SPAWNCLOSE"
    chk.rule(rule, "in the spawn file actions, closing a redirection handle is guarded by `!=` against every redirection handle that a later dup2 still reads")
    fn = prog.need_func("os_execute_impl", "os.c")
    chk.analysed(fn)
    acts = []
    for c in fn.nodes:
        if c.k == "call" and c.callee in ("posix_spawn_file_actions_adddup2", "posix_spawn_file_actions_addclose") and len(c.args) >= 2:
            src = strip_casts(c.args[1])
            if is_ref(src):
                acts.append((c.ln, c.id, c.callee.endswith("addclose"), src.name, c))
    acts.sort()
    # handles that come from the caller's redirection table (not pipes this function created itself): those named in a
    # `!=` comparison with another such handle anywhere in the function, or used by both a dup2 and a close
    closes = [a for a in acts if a[2]]
    dups = [a for a in acts if not a[2]]
    user = set(n for (_, _, _, n, _) in acts if n.startswith("new_"))
    if len(user) < 3:
        user = set(n for (_, _, _, n, _) in dups) - set(n for (_, _, _, n, _) in acts if n.startswith("pipe"))
    n = 0
    for (ln, cid, _, x, c) in closes:
        if x not in user:
            continue
        later = sorted(set(y for (l2, i2, isclose, y, _) in acts if not isclose and (l2, i2) > (ln, cid) and y in user and y != x))
        n += 1
        chk.instance(rule)
        # enclosing if-conditions
        guards = set()
        q = c.parent
        while q is not None:
            if q.k == "if" and any(z is c for z in q.kids[1].walk()):
                for y in q.kids[0].walk():
                    if y.k == "bin" and y.op == "!=":
                        names = [strip_casts(k).name for k in y.kids if is_ref(strip_casts(k))]
                        if len(names) == 2 and x in names:
                            guards.add([m for m in names if m != x][0])
            q = q.parent
        missing = [y for y in later if y not in guards]
        # the source may itself be descriptor 0, 1 or 2 ({:err stdout}): those are the child's standard streams and
        # must survive - the close needs a test that keeps them out (X > 2 or the like)
        std_ok = False
        q = c.parent
        while q is not None:
            if q.k == "if" and any(z is c for z in q.kids[1].walk()):
                for y in q.kids[0].walk():
                    if y.k == "bin" and y.op in (">", ">=") and is_ref(strip_casts(y.kids[0])) and strip_casts(y.kids[0]).name == x \
                            and strip_casts(y.kids[1]).v is not None and strip_casts(y.kids[1]).v + (1 if y.op == ">" else 0) >= 3:
                        std_ok = True
            q = q.parent
        if not missing and not std_ok:
            chk.violation(rule, "os.c", fn.name, "close-std:%s" % x, c.loc,
                          "the child closes `%s` at %s without a test that it is not one of the descriptors 0-2: with {:err stdout} the source of "
                          "the dup2 is descriptor 1 itself, the close takes the child's stdout away and its output is lost" % (x, c.loc))
            continue
        if missing:
            chk.violation(rule, "os.c", fn.name, "close:%s" % x, c.loc,
                          "the child closes `%s` at %s although a later dup2 still reads `%s`, which may be the same handle (the same file given "
                          "for both redirections): that dup2 then fails with EBADF, the program is never started and neither its output nor "
                          "its exit status is delivered" % (x, c.loc, "`, `".join(missing)))
        else:
            chk.ok(rule, "close(%s) is guarded against %s" % (x, ", ".join(later) or "nothing later"))
    chk.floor(rule, 3, n)
