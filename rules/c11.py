"""C11 - parser output depends only on the bytes; data prints and parses back: structural clauses.

C11-CONFINED  the parser's state machine keeps no state outside the JanetParser record
C11-CLONE     janet_parser_clone copies, and janet_parser_init initialises, every field; owned arrays are deep-copied
C11-ESCAPES   every escape the printer emits is accepted by the reader with the same meaning
"""
from jv.facts import Program, AnalysisBroken
from jv.callgraph import CallGraph
from jv import flow
from jv.util import is_ref, is_mem, strip_casts, switch_cases, case_name, case_map

EXPLANATION = (
    "Static rules: (CONFINED) every function of parse.c reachable from janet_parser_consume / janet_parser_eof "
    "(call graph including the consumer function pointers) references no mutable object with static storage and no "
    "VM global, so the machine's whole state is the JanetParser record - the structural core of chunk independence; "
    "(CLONE) field coverage of clone/init and deep copy of the three owned arrays; (ESCAPES) the byte->letter table "
    "extracted from pp.c's string escaper is the inverse of the letter->byte table extracted from parse.c's "
    "checkescape, and the \\\\xHH fallback is accepted.  Chunking equivalence itself, line/column arithmetic and the "
    "round trip of numbers are not decided.")
ASSUMPTIONS = ["default Linux configuration"]


def _confined_rule(chk, prog):
    rule = "C11-CONFINED"
    chk.rule(rule, "functions reachable from janet_parser_consume/eof inside parse.c touch no mutable static storage")
    cg = CallGraph(prog)
    tu = prog.tus["parse.c"]
    seeds = [cg.fid(tu.funcs[n]) for n in ("janet_parser_consume", "janet_parser_eof") if n in tu.funcs]
    if len(seeds) != 2:
        raise AnalysisBroken("parser entry points not found")
    seen = set(seeds)
    work = list(seeds)
    while work:
        x = work.pop()
        for y in cg.callees(x, with_passed=True):
            if y in cg.funcs and y[0] == "parse.c" and y not in seen:
                seen.add(y)
                work.append(y)
    # consumers stored in JanetParseState.consumer by pushstate(p, consumer, ...) calls: add functions passed as arguments
    for fid in list(seen):
        for t in cg.passed.get(fid, ()):
            if t in cg.funcs and t[0] == "parse.c" and t not in seen:
                seen.add(t)
                work.append(t)
    while work:
        x = work.pop()
        for y in list(cg.callees(x, with_passed=True)):
            if y in cg.funcs and y[0] == "parse.c" and y not in seen:
                seen.add(y)
                work.append(y)
    if len(seen) < 20:
        raise AnalysisBroken("only %d parser functions reachable" % len(seen))
    for fid in sorted(seen):
        fn = cg.funcs[fid]
        chk.analysed(fn)
        chk.instance(rule)
        bad = None
        for n in fn.nodes:
            if n.k == "vardecl" and n.d.get("static") and "const" not in (n.t or ""):
                bad = (n, "static local `%s`" % n.name)
            if n.k == "ref" and n.d.get("d") == "gvar":
                g = tu.globals.get(n.name)
                if g is None:
                    continue      # declared in a system header (stderr in the out-of-memory exit path)
                if not g.get("const", False):
                    bad = (n, "global `%s`" % n.name)
        if bad:
            chk.violation(rule, "parse.c", fn.name, bad[1], bad[0].loc,
                          "%s uses %s: parser state outside the JanetParser record survives between chunks and parsers, so "
                          "the result depends on more than the bytes fed" % (fn.name, bad[1]))
        else:
            chk.ok(rule, "%s touches only its parameters and constants" % fn.name)
    return cg


def _clone_rule(chk, prog):
    rule = "C11-CLONE"
    chk.rule(rule, "janet_parser_clone / janet_parser_init cover every field of JanetParser; owned arrays are deep-copied")
    fields = [f for f in prog.records["JanetParser"]["fields"]]
    for fname in ("janet_parser_clone", "janet_parser_init"):
        fn = prog.need_func(fname, "parse.c")
        chk.analysed(fn)
        base = "dest" if fname.endswith("clone") else fn.params[0]["n"]
        written = {}
        for n in fn.nodes:
            if n.k == "asg" and n.op == "=" and n.kids[0].k == "mem" and n.kids[0].rec == "JanetParser" and is_ref(strip_casts(n.kids[0].kids[0]), base):
                written.setdefault(n.kids[0].field, []).append(n)
        for f in fields:
            chk.instance(rule)
            if f["n"] not in written:
                chk.violation(rule, "parse.c", fname, f["n"], fn.loc, "%s does not set JanetParser.%s" % (fname, f["n"]))
                continue
            if fname.endswith("clone") and "*" not in f["t"]:
                # scalar fields must be copied from the source (or derived from a field that was)
                ok = False
                for a in written[f["n"]]:
                    r = strip_casts(a.kids[1])
                    if r.k == "mem" and r.rec == "JanetParser" and (r.field == f["n"] or (r.field.replace("count", "cap") == f["n"])):
                        ok = True
                if ok:
                    chk.ok(rule, "clone copies %s" % f["n"])
                else:
                    chk.violation(rule, "parse.c", fname, f["n"], written[f["n"]][0].loc,
                                  "janet_parser_clone sets JanetParser.%s to `%s` instead of the source parser's value: the "
                                  "clone diverges from the original on the same input" % (f["n"], written[f["n"]][0].kids[1].text()))
            else:
                chk.ok(rule, "%s sets %s" % (fname, f["n"]))
    fn = prog.need_func("janet_parser_clone", "parse.c")
    for f in fields:
        if "*" in f["t"] and f["n"] != "error":
            chk.instance(rule)
            copies = [c for c in fn.calls("memcpy", "safe_memcpy") if any(is_mem(x, f["n"], "JanetParser") for x in c.args[0].walk())
                      and any(is_mem(x, f["n"], "JanetParser") for x in c.args[1].walk())]
            if copies:
                chk.ok(rule, "clone deep-copies %s" % f["n"])
            else:
                chk.violation(rule, "parse.c", "janet_parser_clone", "deep:%s" % f["n"], fn.loc,
                              "the owned array JanetParser.%s is not deep-copied by janet_parser_clone" % f["n"])
    pm = prog.need_func("parsermark", "parse.c")
    chk.instance(rule)
    if any(any(is_mem(x, "args", "JanetParser") for x in c.walk()) for c in pm.calls("janet_mark", "janet_mark_many")):
        chk.ok(rule, "parsermark marks the pending values")
    else:
        chk.violation(rule, "parse.c", "parsermark", "args", pm.loc, "parsermark no longer marks JanetParser.args")


def _escapes_rule(chk, prog):
    rule = "C11-ESCAPES"
    chk.rule(rule, "printer escape table is the inverse of the reader's checkescape; \\\\xHH fallback accepted")
    pf = prog.need_func("janet_escape_string_impl", "pp.c")
    rf = prog.need_func("checkescape", "parse.c")
    chk.analysed(pf)
    chk.analysed(rf)
    psw = [n for n in pf.nodes if n.k == "switch"]
    rsw = [n for n in rf.nodes if n.k == "switch"]
    if not psw or not rsw:
        raise AnalysisBroken("escape switches not found")
    pcm = case_map(psw[0])
    printer = {}
    for n in psw[0].walk():
        if n.k == "str" and n.id in pcm:
            s = n.d.get("s", "")
            if len(s) == 2 and s[0] == "\\":
                for c in switch_cases(psw[0]):
                    pass
                for lab_node in [c for c in switch_cases(psw[0]) if c.k == "case"]:
                    pass
    # build byte -> letter via case values
    for c in switch_cases(psw[0]):
        if c.k != "case":
            continue
        v = c.d.get("v")
        strs = []
        # statements of this arm
        for nid, labs in pcm.items():
            pass
    val_of_label = {case_name(c): c.d.get("v") for c in switch_cases(psw[0]) if c.k == "case"}
    for nid, labs in pcm.items():
        n = pf.nodes[nid]
        if n.k == "str":
            s = n.d.get("s", "")
            if len(s) == 2 and s[0] == "\\":
                for lab in labs:
                    if lab in val_of_label:
                        printer[val_of_label[lab]] = s[1]
    reader = {}
    rcm = case_map(rsw[0])
    rval = {case_name(c): c.d.get("v") for c in switch_cases(rsw[0]) if c.k == "case"}
    for nid, labs in rcm.items():
        n = rf.nodes[nid]
        if n.k == "return" and n.kids and n.kids[0].v is not None:
            for lab in labs:
                if lab in rval and rval[lab] is not None:
                    reader[chr(rval[lab])] = n.kids[0].v
    if len(printer) < 8 or len(reader) < 12:
        raise AnalysisBroken("escape tables not extracted (printer %d, reader %d)" % (len(printer), len(reader)))
    chk.extra["printer_escapes"] = {str(k): v for k, v in sorted(printer.items())}
    for byte, letter in sorted(printer.items()):
        chk.instance(rule)
        if reader.get(letter) == byte:
            chk.ok(rule, "byte %d printed as \\\\%s, read back as %d" % (byte, letter, byte))
        else:
            chk.violation(rule, "pp.c", "janet_escape_string_impl", "byte-%d" % byte, pf.loc,
                          "the printer writes byte %d as \\\\%s but the reader decodes \\\\%s as %s: printed data does not parse back" % (
                              byte, letter, letter, reader.get(letter, "an error")))
    # letters after which the reader keeps consuming (a continuation consumer is installed): a two-character escape the
    # printer emits must not be one of them, or the raw characters the printer writes next are swallowed by the escape
    e1 = prog.need_func("escape1", "parse.c")
    chk.analysed(e1)
    cont = set()
    for x in e1.nodes:
        if x.k == "if":
            sets_consumer = any(y.k == "asg" and y.kids[0].k == "mem" and y.kids[0].field == "consumer" and
                                not (strip_casts(y.kids[1]).k == "ref" and strip_casts(y.kids[1]).name == "stringchar") for y in x.kids[1].walk())
            if sets_consumer:
                for y in x.kids[0].walk():
                    if y.k == "bin" and y.op == "==" and strip_casts(y.kids[1]).v is not None and 0 < strip_casts(y.kids[1]).v < 128:
                        cont.add(chr(strip_casts(y.kids[1]).v))
    if "x" not in cont:
        raise AnalysisBroken("escape1: the continuation for \\x was not recognised (%s)" % sorted(cont))
    chk.extra["reader_multi_char_escapes"] = sorted(cont)
    for byte, letter in sorted(printer.items()):
        chk.instance(rule)
        if letter in cont:
            chk.violation(rule, "parse.c", "escape1", "greedy-\\%s" % letter, e1.loc,
                          "the printer writes byte %d as the two characters \\%s and prints what follows raw, but the reader keeps "
                          "consuming characters after \\%s: a NUL followed by a digit prints as \\%s1 and reads back as one "
                          "different byte" % (byte, letter, letter, letter))
        else:
            chk.ok(rule, "\\%s is complete after one character for the reader" % letter)
    chk.instance(rule)
    if reader.get("x") == 1:
        chk.ok(rule, "reader accepts the \\\\xHH form the printer falls back to")
    else:
        chk.violation(rule, "parse.c", "checkescape", "x", rf.loc, "the reader no longer accepts \\\\xHH, which the printer emits for other bytes")


def _fmtbuf_rule(chk, prog):
    """Numbers are printed with snprintf(dst, N, "%.<P>g", x) and the printer then advances by snprintf's RETURN value -
    the length the text would have had.  The longest %.<P>g text is sign + P digits + '.' + "e-" + 3 exponent digits
    = P + 7 characters, so N must be at least P + 8 (with the NUL).  A smaller N silently drops the last characters of
    the longest numbers (they no longer parse back to the same value) and counts bytes that were never written."""
    import re
    rule = "C11-FMTBUF"
    chk.rule(rule, "every snprintf of a double with %.<P>g has a destination size of at least P + 8")
    full = Program.load("default", units=["pp.c", "strtod.c"])
    n = 0
    for fn in full.all_funcs():
        for c in fn.calls("snprintf"):
            if len(c.args) < 4 or "double" not in (strip_casts(c.args[3]).t or ""):
                continue
            fmts = []
            f = strip_casts(c.args[2])
            if f.k == "str":
                fmts = [f.d.get("s")]
            elif f.k == "ref":
                for x in fn.nodes:
                    if (x.k == "vardecl" and x.name == f.name and x.kids) or (x.k == "asg" and is_ref(x.kids[0], f.name)):
                        for y in x.walk():
                            if y.k == "str":
                                fmts.append(y.d.get("s"))
            gs = []
            for t in fmts:
                m = re.fullmatch(r"%\.(\d+)g", t or "")
                if m:
                    gs.append(int(m.group(1)))
            if not gs:
                continue
            n += 1
            chk.instance(rule)
            chk.analysed(fn)
            size = c.args[1].v
            need = max(gs) + 8
            if size is None:
                raise AnalysisBroken("%s: snprintf size `%s` is not a constant" % (fn.name, c.args[1].text()))
            if size >= need:
                chk.ok(rule, "%s: %%.%dg into %d bytes (needs %d)" % (fn.name, max(gs), size, need))
            else:
                chk.violation(rule, fn.tu.name, fn.name, "snprintf:%%.%dg" % max(gs), c.loc,
                              "snprintf(..., %d, \"%%.%dg\", x): the longest output (e.g. -1.2345678901234567e-300) needs %d bytes "
                              "including the NUL; it is truncated, the printed number parses back to a different value and the "
                              "printer advances over bytes snprintf never wrote" % (size, max(gs), need))
    chk.floor(rule, 2, n)


def run(chk):
    prog = Program.load("default", units=["parse.c", "pp.c"])
    _confined_rule(chk, prog)
    _clone_rule(chk, prog)
    _escapes_rule(chk, prog)
    _fmtbuf_rule(chk, prog)
    _argsync_rule(chk, prog)
    _symclass_rule(chk, prog)
    _utf8bound_rule(chk, prog)
    _jdnnum_rule(chk, prog)
    _querypure_rule(chk, prog)
    _pairguard_rule(chk, prog)
    _producesib_rule(chk, prog)


def _argsync_rule(chk, prog):
    """The parser keeps its pending values on one argument stack (args / argcount) and records in each open state how
    many of them belong to it (argn).  parser/state walks the stack backwards by those argn, so the two must move
    together: a function that resets argcount to a constant has to reset (or rebuild) the per-state counts too."""
    rule = "C11-ARGSYNC"
    chk.rule(rule, "a function that resets the parser's argument count also resets the per-state argument counts (argcount and argn stay in step)")
    n = 0
    for fn in prog.tus["parse.c"].funcs.values():
        resets = [x for x in fn.nodes if x.k == "asg" and x.op == "=" and x.kids[0].k == "mem" and x.kids[0].field == "argcount"
                  and x.kids[0].rec == "JanetParser" and strip_casts(x.kids[1]).v is not None]
        if not resets:
            continue
        chk.analysed(fn)
        synced = any(x.k == "asg" and x.kids[0].k == "mem" and x.kids[0].field == "argn" for x in fn.nodes) or \
            any(c.callee in ("pushstate", "_pushstate") for c in fn.calls())
        # `pending` counts the finished root values waiting at the bottom of the same stack: it can never exceed argcount
        pend = any(x.k == "asg" and x.kids[0].k == "mem" and x.kids[0].field == "pending" and x.kids[0].rec == "JanetParser" for x in fn.nodes)
        for x in resets:
            n += 1
            chk.instance(rule)
            if synced and not pend and strip_casts(x.kids[1]).v == 0:
                chk.violation(rule, "parse.c", fn.name, "pending-not-reset", x.loc,
                              "`%s` empties the argument stack but %s leaves `pending` (the number of finished values queued at its "
                              "bottom) as it was: parser/has-more stays true, parser/produce returns a stale slot and decrements "
                              "argcount below zero (size_t wrap; the next produce or collection walks off the heap)" % (x.text()[:40], fn.name))
            elif synced:
                chk.ok(rule, "%s: `%s` together with the states' argn" % (fn.name, x.text()[:40]))
            else:
                chk.violation(rule, "parse.c", fn.name, "argcount-reset", x.loc,
                              "`%s` empties the argument stack but %s leaves the open states' argn as they were: parser/state then steps "
                              "`args -= s->argn` below the start of the stack and returns out-of-bounds heap words as :args" % (x.text()[:40], fn.name))
    if n < 2:
        raise AnalysisBroken("parse.c: only %d resets of argcount found" % n)


def _classes(fn):
    """lexical classes a function tests for, read off its constants and calls"""
    out = set()
    for x in fn.nodes:
        t = x.text()
        if x.k == "call":
            c = x.callee or ""
            if c.startswith("janet_scan_num"):
                out.add("number")
            if c in ("check_str_const", "janet_cstrcmp", "strcmp", "memcmp", "janet_symeq"):
                for lit in ("nil", "true", "false"):
                    if '"%s"' % lit in t:
                        out.add(lit)
        if x.k == "bin" and x.op in ("==", "!=", ">=", "<=", "<", ">"):
            for k in x.kids:
                k = strip_casts(k)
                if k.v == ord(":"):
                    out.add("keyword-colon")
                if k.v in (ord("0"), ord("9")):
                    out.add("leading-digit")
    return out


def _symclass_rule(chk, prog):
    """The reader decides what a token is by a fixed list of tests (keyword colon, number, nil / true / false, leading
    digit) and makes a symbol only of what is left.  %j may therefore print a symbol verbatim only if its text fails
    every one of those tests - the printer's `is this printable` test has to name the same classes."""
    rule = "C11-SYMCLASS"
    chk.rule(rule, "the %j printer refuses every symbol whose text the reader would classify as something other than a symbol (same classes as the reader's token classifier)")
    rd = prog.tus["parse.c"].funcs.get("tokenchar")
    pr = prog.tus["pp.c"].funcs.get("contains_bad_chars")
    if rd is None or pr is None:
        raise AnalysisBroken("tokenchar / contains_bad_chars not found")
    chk.analysed(rd)
    chk.analysed(pr)
    want = _classes(rd)
    if len(want) < 5:
        raise AnalysisBroken("tokenchar: token classes not recognised (%s)" % sorted(want))
    have = _classes(pr)
    for cls in sorted(want):
        chk.instance(rule)
        if cls in have:
            chk.ok(rule, "printer tests the `%s` class" % cls)
        else:
            chk.violation(rule, "pp.c", "contains_bad_chars", "class:%s" % cls, pr.loc,
                          "the reader (tokenchar) classifies a token by the `%s` test before it makes a symbol, and the %%j printer's "
                          "contains_bad_chars has no such test: a symbol with that spelling is printed verbatim and reads back as a "
                          "different value" % cls)
    # the empty symbol prints as nothing at all
    chk.instance(rule)
    if any(x.k == "bin" and x.op in ("==", "!=", "<", "<=") and any(strip_casts(k).v in (0, 1) for k in x.kids) and any(is_ref(strip_casts(k), "len") for k in x.kids) for x in pr.nodes):
        chk.ok(rule, "printer tests for the empty symbol")
    else:
        chk.violation(rule, "pp.c", "contains_bad_chars", "class:empty", pr.loc,
                      "the empty symbol is not refused: it prints as no text at all and cannot be read back")


def _utf8bound_rule(chk, prog):
    """janet_valid_utf8 is given bytes and a length; the parser calls it on its token buffer, which is not terminated
    and still holds bytes of earlier tokens behind the current one.  The end of a multi-byte sequence is computed from
    its lead byte, so it has to be compared with the length before the trailing bytes are read - otherwise whether a
    token that ends in a cut-off sequence is accepted depends on what was parsed before it (and a clone, whose buffer
    is fresh, disagrees with the original)."""
    rule = "C11-UTF8BOUND"
    chk.rule(rule, "janet_valid_utf8 reads a trailing byte only on paths that compared the computed end of the sequence with the length it was given")
    fn = prog.need_func("janet_valid_utf8", "parse.c")
    chk.analysed(fn)
    lenp = fn.params[1]["n"]
    strp = fn.params[0]["n"]
    sites = [x for x in fn.nodes if x.k == "sub" and is_ref(strip_casts(x.kids[0]), strp) and
             not (strip_casts(x.kids[1]).k == "ref" and strip_casts(x.kids[1]).name == "i")]
    if not sites:
        raise AnalysisBroken("janet_valid_utf8: no trailing-byte reads found")
    IN, T = flow.condition_facts(fn)
    res = {}
    for x, S in flow.states_at(fn, IN, T):
        for sx in sites:
            if x is sx:
                res[id(sx)] = bool(S) and all(any(lenp in toks and len(toks) >= 2 and not ({"i", lenp} == set(toks))
                                                  for (op, l, r, toks, ln, rn) in ps) for ps in S)
    n = 0
    for sx in sites:
        if id(sx) not in res:
            continue
        n += 1
        chk.instance(rule)
        if res[id(sx)]:
            chk.ok(rule, "janet_valid_utf8: `%s` after the end of the sequence was compared with the length" % sx.text())
        else:
            chk.violation(rule, "parse.c", "janet_valid_utf8", "unbounded:" + sx.text().replace(" ", ""), sx.loc,
                          "`%s` is read although only the start of the sequence (i < %s) is known to be inside the bytes given: for a "
                          "sequence cut off at the end, what lies behind the token decides whether it is valid" % (sx.text(), lenp))
    chk.floor(rule, 2, n)


def _jdnnum_rule(chk, prog):
    """%j promises text that reads back as the same number, which takes 17 significant digits.  The general number
    printer uses DBL_DIG (15) outside the exact-integer range, so the data-notation printer may not route any number
    through it: every double above 2^53 is a whole number and would lose its last digits."""
    rule = "C11-JDNNUM"
    chk.rule(rule, "the data-notation printer formats numbers only through the 17-digit formatter (never through a formatter with fewer significant digits)")
    fn = prog.need_func("print_jdn_one", "pp.c")
    chk.analysed(fn)
    import re as _re
    lossy = {}
    for g in prog.all_funcs():
        if g.calls("snprintf"):
            for y in g.nodes:
                if y.k == "str":
                    for m in _re.finditer(r"%[.](\d+)g", y.d.get("s", "")):
                        if int(m.group(1)) < 17:
                            lossy[g.name] = int(m.group(1))
    if not lossy:
        raise AnalysisBroken("no %.<P>g formatter with P < 17 found (number_to_string_b expected)")
    n = 0
    for c in fn.nodes:
        if c.k == "call" and c.callee:
            n += 1
            if c.callee in lossy:
                chk.instance(rule)
                chk.violation(rule, "pp.c", "print_jdn_one", "lossy:" + c.callee, c.loc,
                              "`%s` formats with %d significant digits: a number that needs 16 or 17 (every double above 2^53 is a "
                              "whole number) is printed as text that parses back to a different value" % (c.text()[:50], lossy[c.callee]))
    chk.instance(rule)
    if fn.calls("janet_buffer_dtostr"):
        chk.ok(rule, "print_jdn_one: numbers go through janet_buffer_dtostr (%%.17g); lossy formatters %s are not called" % sorted(lossy))
    else:
        chk.violation(rule, "pp.c", "print_jdn_one", "no-17-digit-path", fn.loc, "print_jdn_one no longer calls the 17-digit formatter")
    chk.floor(rule, 1)


def _querypure_rule(chk, prog):
    """What a parser yields depends only on the bytes it was fed, not on how often its owner looked at it.
    parser/status, parser/has-more and - while there is no error - parser/error are such looks: they must leave the
    half-parsed form and the queue of finished values alone.  (parser/error clears and flushes when it hands out an
    error; that is the documented way to recover, and only then.)"""
    rule = "C11-QUERYPURE"
    chk.rule(rule, "janet_parser_status / janet_parser_has_more write nothing, and janet_parser_error changes the parser only under `status == JANET_PARSE_ERROR`")
    tu = prog.tus["parse.c"]
    MUT = ("janet_parser_flush", "janet_parser_consume", "janet_parser_eof", "janet_parser_produce", "popstate", "pushstate", "push_arg")
    n = 0
    for name in ("janet_parser_status", "janet_parser_has_more", "janet_parser_error"):
        fn = tu.funcs.get(name)
        if fn is None:
            raise AnalysisBroken("parse.c: %s not found" % name)
        chk.analysed(fn)
        sites = [x for x in fn.nodes if (x.k == "asg" and any(y.k == "mem" and y.rec == "JanetParser" for y in x.kids[0].walk()))
                 or (x.k == "call" and x.callee in MUT)]
        n += 1
        chk.instance(rule)
        bad = None
        for x in sites:
            guarded = False
            q = x.parent
            while q is not None:
                if q.k == "if" and any(y.k == "ref" and y.name == "JANET_PARSE_ERROR" for y in q.kids[0].walk()) and \
                        any(z is x for z in q.kids[1].walk()):
                    guarded = True
                q = q.parent
            if name != "janet_parser_error" or not guarded:
                bad = bad or x
        if bad is None:
            chk.ok(rule, "%s: %s" % (name, "no writes" if not sites else "%d write(s), all under the error test" % len(sites)))
        else:
            chk.violation(rule, "parse.c", name, "write", bad.loc,
                          "%s changes the parser (`%s`) on a path where no error is pending: asking a healthy parser for its status discards "
                          "the half-parsed form and the values already queued, so the result depends on how often the owner polled" % (
                              name, bad.text()[:50]))
    chk.floor(rule, 3, n)


def _pairguard_rule(chk, prog):
    """close_struct / close_table consume the pending arguments in pairs.  An odd count is a syntax error of the input
    and has to be reported as one before either runs: otherwise the last key is paired with whatever lies behind the
    live part of the argument stack - a value left over from an earlier form, so the same bytes parse differently
    depending on what the parser object saw before."""
    rule = "C11-PAIRGUARD"
    chk.rule(rule, "every call of a pair-consuming literal constructor (close_struct, close_table) is preceded by a test of the parity of the argument count, or the constructor tests it itself before its loop")
    from rules.c02 import unguarded_pair_callers
    tu = prog.tus["parse.c"]
    n = 0
    for name in ("close_struct", "close_table"):
        fn = tu.funcs.get(name)
        if fn is None:
            raise AnalysisBroken("parse.c: %s not found" % name)
        chk.analysed(fn)
        n += 1
        chk.instance(rule)
        own = [x for x in fn.nodes if x.k == "if" and any(y.k == "bin" and y.op == "&" and strip_casts(y.kids[1]).v == 1 for y in x.kids[0].walk())
               and any(y.k == "return" for y in x.kids[1].walk())]
        loops = [x for x in fn.nodes if x.k == "for"]
        if own and loops and own[0].ln <= loops[0].ln:
            chk.ok(rule, "%s refuses an odd count itself" % name)
            continue
        bad = unguarded_pair_callers(prog, fn)
        if bad:
            c, g = bad[0]
            chk.violation(rule, "parse.c", name, "caller:" + g.name, c.loc,
                          "%s is called at %s (%s) without a preceding test of the parity of the argument count and does not test it itself: "
                          "an odd-length literal is accepted and its last key takes a stale value from behind the live arguments" % (name, c.loc, g.name))
        else:
            chk.ok(rule, "%s: every caller tests the parity first" % name)
    chk.floor(rule, 2, n)


def _producesib_rule(chk, prog):
    """parser/produce has two forms - the value, or the value still wrapped in its tuple with line and column - and one
    job: take the oldest finished value off the argument stack.  The bookkeeping is the same for both: the pending
    count, the stack height and the root frame's share of the stack go down together (parser/state walks the stack
    backwards by each frame's share).  The two functions must update the same counters."""
    rule = "C11-PRODUCESIB"
    chk.rule(rule, "janet_parser_produce and janet_parser_produce_wrapped decrement the same set of parser counters")
    tu = prog.tus["parse.c"]
    sets = {}
    for name in ("janet_parser_produce", "janet_parser_produce_wrapped"):
        fn = tu.funcs.get(name)
        if fn is None:
            raise AnalysisBroken("parse.c: %s not found" % name)
        chk.analysed(fn)
        dec = set()
        for x in fn.nodes:
            tgt = None
            if x.k == "un" and x.op in ("--", "post--", "pre--") and x.kids:
                tgt = x.kids[0]
            elif x.k == "asg" and x.op == "-=":
                tgt = x.kids[0]
            if tgt is not None:
                m = next((y for y in [tgt] + list(tgt.walk()) if y.k == "mem"), None)
                if m is not None:
                    dec.add("%s.%s" % (m.rec, m.field))
        sets[name] = dec
    chk.instance(rule)
    a, b = sets["janet_parser_produce"], sets["janet_parser_produce_wrapped"]
    if not a:
        raise AnalysisBroken("janet_parser_produce: no decremented counters recognised")
    if a == b:
        chk.ok(rule, "both decrement %s" % ", ".join(sorted(a)))
    else:
        who = "janet_parser_produce_wrapped" if a - b else "janet_parser_produce"
        chk.violation(rule, "parse.c", who, "counters", tu.funcs[who].loc,
                      "%s does not decrement %s, which its sibling does: after (parser/produce p true) the root frame still claims a value "
                      "that left the stack, and parser/state walks past the bottom of the argument stack" % (who, ", ".join(sorted((a - b) or (b - a)))))
    chk.floor(rule, 1)
