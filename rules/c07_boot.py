"""C07 over the one timer macro written in Janet (src/boot/boot.janet).

C07-DEADLINEBODY  ev/with-deadline runs its body in a fresh fiber and arms ev/deadline for the task.  ev/deadline's
                  third argument is the fiber whose liveness keeps the deadline armed; left out, it defaults to the
                  calling fiber - which goes on living after the body has finished, so the old deadline then cancels
                  the task in whatever unrelated wait it has reached.  The rule requires that the ev/deadline call in
                  the macro's template names, as its third argument, the same generated symbol that the template binds
                  to the body's fiber and resumes.

Decided from the source text of boot.janet with the reader in jv/janetsrc.py; nothing is expanded or run.
"""
import os
from jv import janetsrc as js
from jv.facts import REPO, AnalysisBroken

BOOT = os.path.join("src", "boot", "boot.janet")


def _unq(n):
    while n is not None and n.t == "unquote":
        n = n.v
    return n


def _head(n):
    if n.t == "tuple" and n.v:
        h = _unq(n.v[0])
        if h.t == "sym":
            return h.v
    return None


def run(chk):
    rule = "C07-DEADLINEBODY"
    chk.rule(rule, "the ev/deadline call in the template of ev/with-deadline passes, as the fiber to check, the symbol the template binds to the body's fiber and resumes")
    path = os.path.join(REPO, BOOT)
    try:
        forms = js.read(open(path).read())
    except (IOError, js.JanetSyntaxError) as e:
        raise AnalysisBroken("boot.janet: %s" % e)
    macros = [y for f in forms for y in f.walk()
              if y.t == "tuple" and y.v and y.v[0].t == "sym" and y.v[0].v in ("defmacro", "defmacro-")
              and len(y.v) >= 3 and y.v[1].t == "sym" and y.v[1].v == "ev/with-deadline"]
    if not macros:
        chk.note("%s: boot.janet defines no ev/with-deadline macro on this tree; nothing to decide" % rule)
        chk.floor(rule, 0, 0)
        return
    n = 0
    for m in macros:
        params, body = js.fn_parts(m)
        calls = [y for b in body for y in b.walk() if _head(y) == "ev/deadline"]
        resumed = set(_unq(y.v[1]).v for b in body for y in b.walk()
                      if _head(y) == "resume" and len(y.v) >= 2 and _unq(y.v[1]).t == "sym")
        if not calls:
            raise AnalysisBroken("ev/with-deadline (boot.janet:%d): no ev/deadline call in the template" % m.line)
        for c in calls:
            n += 1
            chk.instance(rule)
            where = "%s:%d" % (BOOT, c.line)
            arg = _unq(c.v[3]) if len(c.v) >= 4 else None
            if arg is not None and arg.t == "sym" and arg.v in resumed:
                chk.ok(rule, "ev/with-deadline: `%s` checks the fiber `%s` that the template resumes" % (c.text(), arg.v))
            else:
                chk.violation(rule, "boot.janet", "ev/with-deadline", "tocheck", where,
                              "the template of ev/with-deadline calls `%s`: its third argument (the fiber whose liveness keeps the deadline "
                              "armed) is %s, not the fiber the template resumes (%s).  ev/deadline then watches the calling fiber, which "
                              "outlives the body: after the body has finished the expired deadline cancels the task in whatever "
                              "unrelated wait it is in" % (c.text(), "missing" if arg is None else "`%s`" % arg.text(),
                                                          ", ".join(sorted(resumed)) or "none"))
    chk.floor(rule, 1, n)
