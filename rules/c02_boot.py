"""C02 over the control macros that are written in Janet (src/boot/boot.janet).

C02-EVALONCE   a macro that mentions one of its argument expressions several times in its expansion (a loop bound, a
               collection, a dispatch value) first decides whether the expression may be used in place or has to be
               bound to a fresh symbol once:  (if (idempotent? x) x (gensym)).  idempotent? is the language's definition
               of "evaluates to itself": everything except symbols, tuples, arrays, tables, structs and buffers.  A
               weaker test - one that also lets symbols or calls through - makes the expansion evaluate the argument
               once per use: side effects repeat, and a var that the body assigns is re-read on every iteration.
               The rule finds every choice between an argument and (gensym) and requires its test to be idempotent?
               of that same argument (directly, or through a local defined as exactly that).

Decided from the source text of boot.janet with the reader in jv/janetsrc.py; nothing is expanded or run.
"""
import os
from jv import janetsrc as js
from jv.facts import REPO, AnalysisBroken

BOOT = os.path.join("src", "boot", "boot.janet")


def _is_gensym(n):
    return n.t == "tuple" and len(n.v) == 1 and n.v[0].t == "sym" and n.v[0].v == "gensym"


def _idem_of(n):
    """symbol S when n is (idempotent? S)"""
    if n.t == "tuple" and len(n.v) == 2 and n.v[0].t == "sym" and n.v[0].v == "idempotent?" and n.v[1].t == "sym":
        return n.v[1].v
    return None


def run(chk):
    rule = "C02-EVALONCE"
    chk.rule(rule, "every choice between using a macro argument in place and binding it to (gensym) is decided by (idempotent? <that argument>)")
    try:
        forms = js.read(open(os.path.join(REPO, BOOT)).read())
    except (IOError, js.JanetSyntaxError) as e:
        raise AnalysisBroken("boot.janet: %s" % e)
    # premise: idempotent? is still the negated membership test in the table of non-atomic types, and that table
    # still lists symbols and tuples
    top = js.toplevel(forms)
    if "idempotent?" not in top or "non-atomic-types" not in top:
        raise AnalysisBroken("boot.janet: idempotent? / non-atomic-types not found")
    nat = top["non-atomic-types"][1].v[-1]
    kws = [k.v for k in nat.kids if k.t == "kw"]
    chk.instance(rule)
    missing = [k for k in ("symbol", "tuple", "array", "table", "struct", "buffer") if k not in kws]
    idem = top["idempotent?"][1]
    params, body = js.fn_parts(idem)
    shape = (len(body) == 1 and body[0].head() == "not" and len(body[0].v) == 2 and body[0].v[1].head() in ("in", "get")
             and body[0].v[1].v[1].sym() == "non-atomic-types")
    if missing:
        chk.violation(rule, "boot.janet", "non-atomic-types", "types", "%s:%d" % (BOOT, nat.line),
                      "the table of types whose values do not evaluate to themselves no longer lists %s: every macro that guards "
                      "single evaluation with idempotent? now duplicates such arguments" % ", ".join(":" + m for m in missing))
    elif not shape:
        chk.violation(rule, "boot.janet", "idempotent?", "definition", "%s:%d" % (BOOT, idem.line),
                      "idempotent? is no longer (not (in non-atomic-types (type x)))")
    else:
        chk.ok(rule, "idempotent? = not a member of non-atomic-types {%s}" % ",".join(kws))
    n = 0
    for f in forms:
        if f.head() not in js.DEFINERS or len(f.v) < 3 or f.v[1].t != "sym":
            continue
        name = f.v[1].v
        # locals defined as exactly (idempotent? S)
        alias = {}
        for y in f.walk():
            if y.t == "tuple" and y.head() in ("def", "let") and len(y.v) == 3 and y.v[1].t == "sym":
                s = _idem_of(y.v[2])
                if s:
                    alias[y.v[1].v] = s
        for y in f.walk():
            if y.t != "tuple" or y.head() != "if" or len(y.v) != 4:
                continue
            t, a, b = y.v[1], y.v[2], y.v[3]
            if _is_gensym(b) and a.t == "sym":
                arg, negated = a.v, False
            elif _is_gensym(a) and b.t == "sym":
                arg, negated = b.v, True
            else:
                continue
            n += 1
            chk.instance(rule)
            if negated and t.head() == "not" and len(t.v) == 2:
                t, negated = t.v[1], False
            guard = _idem_of(t) or (alias.get(t.v) if t.t == "sym" else None)
            loc = "%s:%d" % (BOOT, y.line)
            if negated or guard != arg:
                chk.violation(rule, "boot.janet", name, "choice:" + arg, loc,
                              "%s uses its argument `%s` in place when %s holds and binds it to a fresh symbol otherwise; the test is not "
                              "(idempotent? %s), so expressions that do not evaluate to themselves (a symbol naming a var, a call) are "
                              "pasted into the expansion at every use and evaluated again each time" % (name, arg, t.text()[:60], arg))
            else:
                chk.ok(rule, "%s: `%s` used in place only when idempotent" % (name, arg))
    chk.floor(rule, 5, n + 1)
