"""C14 - 64-bit integer arithmetic: structural clauses on inttypes.c.

C14-DIV      every 64-bit / % /= %= is dominated by a zero test of the divisor and, when signed,
             by a test that excludes (INT64_MIN, -1)
C14-WRAP     no + - * or unary minus is evaluated in a signed 64-bit type in the operator cfuns
             (signed overflow is undefined; wrapping must be computed in uint64_t)
C14-METHODS  the s64 and u64 method tables have the same key set, every reversed key has its base,
             and every left-method name the interpreter looks up exists in both tables
"""
from jv import flow
from jv.facts import Program, AnalysisBroken
from jv.util import is_ref, strip_casts

EXPLANATION = (
    "Static rules on inttypes.c: (DIV) path-sensitive dataflow over each operator function's CFG proving "
    "that every 64-bit division/remainder is reached only on paths where the divisor was compared unequal "
    "to zero and, for signed operands, where divisor==-1 or dividend==INT64_MIN was excluded; (WRAP) type "
    "query: no signed 64-bit + - * / unary minus in the operator bodies outside a reasoned exception table; "
    "(METHODS) cross-check of the two JanetMethod tables and the method names vm.c looks up. Decides these "
    "necessary clauses (no trap/UB, operator exists for both types), not the numerical results.")
ASSUMPTIONS = ["default Linux configuration; int64_t is `long`", "value-level exactness of results is not decided"]

INT64_MIN = -(2 ** 63)

# sub-expressions evaluated in signed 64-bit arithmetic that cannot overflow; key (function, expression text)
WRAP_EXCEPTIONS = {
    ("cfun_it_s64_divf", "x * op2"): "x = op1/op2 truncated, so |x*op2| <= |op1|",
    ("cfun_it_s64_divfi", "x * op2"): "x = op1/op2 truncated, so |x*op2| <= |op1|",
    ("cfun_it_s64_divf", "x - (((op1 ^ op2) < 0) && ((x * op2) != op1))"):
        "subtracts 1 only when signs differ and the division was inexact, then x > INT64_MIN",
    ("cfun_it_s64_divfi", "x - (((op1 ^ op2) < 0) && ((x * op2) != op1))"):
        "subtracts 1 only when signs differ and the division was inexact, then x > INT64_MIN",
    ("cfun_it_s64_mod", "x + op2"): "x and op2 have opposite signs on this arm, the sum cannot overflow",
    ("cfun_it_s64_modi", "x + op2"): "x and op2 have opposite signs on this arm, the sum cannot overflow",
}


def _key(n):
    return n.text()


def _div_rule(chk, tu):
    rule = "C14-DIV"
    chk.rule(rule, "64-bit / and % dominated by divisor!=0 and (signed) exclusion of INT64_MIN / -1")
    for fn in tu.funcs.values():
        divs = [n for n in fn.nodes if n.k in ("bin", "asg") and n.op in ("/", "%", "/=", "%=")
                and any(k.t in ("int64_t", "uint64_t", "long", "unsigned long") for k in n.kids)]
        if not divs:
            continue
        chk.analysed(fn)

        def kill(facts, lv):
            t = _key(lv)
            return frozenset(f for f in facts if f[1] != t)

        def transfer(facts, n):
            if n.k == "asg":
                return kill(facts, n.kids[0])
            if n.k == "vardecl":
                return frozenset(f for f in facts if f[1] != n.name)
            if n.k == "un" and n.op in ("pre++", "post++", "pre--", "post--"):
                return kill(facts, n.kids[0])
            return facts

        def edge(facts, blk, succ, cond, truth):
            if cond is None:
                return facts
            c = flow.compare_of(cond, truth)
            if c is None:
                return facts
            lhs, op, rhs = c
            l = strip_casts(lhs)
            r = strip_casts(rhs) if rhs is not None else None
            lv = l.v
            rv = r.v if r is not None else 0
            if lv is not None and rv is None and r is not None:
                l, r, lv, rv = r, l, rv, lv
            if rv is None:
                return facts
            if op == "!=":
                if rv == 0:
                    return facts | frozenset([("nz", _key(l))])
                if rv == -1:
                    return facts | frozenset([("nm1", _key(l))])
                if rv == INT64_MIN:
                    return facts | frozenset([("nmin", _key(l))])
            if op == "==" and rv not in (0,) and rv is not None:
                # equal to a non-zero constant: certainly non-zero
                add = [("nz", _key(l))]
                if rv != -1:
                    add.append(("nm1", _key(l)))
                if rv != INT64_MIN:
                    add.append(("nmin", _key(l)))
                return facts | frozenset(add)
            if op in (">",) and rv >= 0 or op == ">=" and rv > 0:
                return facts | frozenset([("nz", _key(l)), ("nm1", _key(l))])
            return facts

        IN, OUT, T = flow.forward_paths(fn, frozenset(), transfer, edge)
        for b in fn.blocks.values():
            if b.id not in IN:
                continue
            S = IN[b.id]
            for n in b.elems:
                if n in divs:
                    chk.instance(rule)
                    dividend, divisor = strip_casts(n.kids[0]), strip_casts(n.kids[1])
                    signed = not any((k.t or "").startswith(("uint64_t", "unsigned")) for k in n.kids)
                    dk, vk = _key(divisor), _key(dividend)
                    nz = all(("nz", dk) in f for f in S)
                    ok = nz
                    why = []
                    if not nz:
                        why.append("divisor `%s` not proven non-zero on every path" % dk)
                    if signed:
                        sm = all((("nm1", dk) in f) or (("nmin", vk) in f) for f in S)
                        if not sm:
                            ok = False
                            why.append("signed: neither `%s != -1` nor `%s != INT64_MIN` established on every path "
                                       "(INT64_MIN %s -1 traps)" % (dk, vk, n.op.rstrip("=")))
                    if ok:
                        chk.ok(rule, "%s: %s at %s (%s)" % (fn.name, n.text(), n.loc, "signed" if signed else "unsigned"))
                    else:
                        chk.violation(rule, tu.name, fn.name, n.op, n.loc, "%s: %s" % (n.text(), "; ".join(why)))
                S = T(S, n)


def _wrap_rule(chk, tu):
    rule = "C14-WRAP"
    chk.rule(rule, "no signed 64-bit + - * unary- anywhere in inttypes.c (operator bodies and their helpers): wrap must be computed unsigned")
    used = set()
    for fn in tu.funcs.values():
        # every function of the unit: operator bodies and the helpers they are factored into
        chk.analysed(fn)
        for n in fn.nodes:
            signed64 = n.t in ("int64_t", "long", "long long")
            if not signed64:
                continue
            hit = (n.k == "bin" and n.op in ("+", "-", "*")) or (n.k == "asg" and n.op in ("+=", "-=", "*=")) or \
                  (n.k == "un" and n.op == "-")
            if not hit:
                continue
            if n.v is not None:
                continue  # compile-time constant
            chk.instance(rule)
            key = (fn.name, n.text())
            if key in WRAP_EXCEPTIONS:
                used.add(key)
                chk.exception(rule, "%s: %s" % key, WRAP_EXCEPTIONS[key])
                chk.ok(rule, "%s: %s (exception: %s)" % (fn.name, n.text(), WRAP_EXCEPTIONS[key]))
            else:
                chk.violation(rule, tu.name, fn.name, n.text()[:60], n.loc,
                              "`%s` is evaluated in signed 64-bit arithmetic; overflow is undefined, the documented "
                              "result is two's-complement wrap (compute in uint64_t)" % n.text())
    # count the unsigned computations that discharge the clause
    for fn in tu.funcs.values():
        if fn.name.startswith("cfun_it_"):
            for n in fn.nodes:
                if n.k == "bin" and n.op in ("+", "-", "*") and n.t in ("uint64_t", "unsigned long") and n.v is None:
                    chk.instance(rule)
                    chk.ok(rule, "%s: %s computed in %s" % (fn.name, n.text()[:50], n.t))


def _methods_rule(chk, prog, tu):
    rule = "C14-METHODS"
    chk.rule(rule, "s64/u64 method tables agree and contain every left-method the VM looks up")

    def table(name):
        init = tu.ginit(name)
        if init is None:
            raise AnalysisBroken("method table %s not found" % name)
        out = {}
        for row in init.kids:
            if row.k == "init" and row.kids and row.kids[0].k == "str":
                fnref = strip_casts(row.kids[1]) if len(row.kids) > 1 else None
                out[row.kids[0].d.get("s")] = fnref.name if fnref is not None and fnref.k == "ref" else None
        return out

    s64 = table("it_s64_methods")
    u64 = table("it_u64_methods")
    chk.instance(rule, len(s64) + len(u64))
    for k in sorted(set(s64) - set(u64)):
        chk.violation(rule, tu.name, "it_u64_methods", k, tu.file, "method %r exists for int/s64 but not for int/u64" % k)
    for k in sorted(set(u64) - set(s64)):
        chk.violation(rule, tu.name, "it_s64_methods", k, tu.file, "method %r exists for int/u64 but not for int/s64" % k)
    chk.ok(rule, "key sets: %d common" % len(set(s64) & set(u64)), n=len(set(s64) & set(u64)))
    for name, t in (("it_s64_methods", s64), ("it_u64_methods", u64)):
        for k, f in sorted(t.items()):
            if k.startswith("r") and len(k) > 1 and k != "rem":
                if k[1:] not in t:
                    chk.violation(rule, tu.name, name, k, tu.file, "reversed method %r has no base method %r" % (k, k[1:]))
                else:
                    chk.ok(rule, "%s: %s has base" % (name, k))
            if f is None or not f.startswith("cfun_it_" + ("s64" if "s64" in name else "u64")):
                chk.violation(rule, tu.name, name, k, tu.file,
                              "method %r is bound to %s, not a %s operator" % (k, f, "s64" if "s64" in name else "u64"))
            else:
                chk.ok(rule, "%s[%s] -> %s" % (name, k, f))
    # names looked up by the interpreter
    vm = Program.load("default", units=["vm.c"]).tus["vm.c"]
    left = set()
    right = set()
    for fn in vm.funcs.values():
        for c in fn.calls("janet_binop_call"):
            if c.args[0].k == "str":
                left.add(c.args[0].d["s"])
            if c.args[1].k == "str":
                right.add(c.args[1].d["s"])
        for c in fn.calls("janet_unary_call"):
            if c.args[0].k == "str":
                left.add(c.args[0].d["s"])
    if len(left) < 8:
        raise AnalysisBroken("only %d operator method names found in vm.c" % len(left))
    chk.instance(rule, len(left))
    for k in sorted(left):
        for name, t in (("it_s64_methods", s64), ("it_u64_methods", u64)):
            if k in t:
                chk.ok(rule, "vm looks up %r: present in %s" % (k, name))
            else:
                chk.violation(rule, tu.name, name, k, tu.file, "the interpreter dispatches operator method %r but %s lacks it" % (k, name))
    # every reversed name present in a table must be one the VM can actually ask for
    for name, t in (("it_s64_methods", s64), ("it_u64_methods", u64)):
        for k in sorted(t):
            if k.startswith("r") and k[1:] in t and k != "rem" and k not in right:
                chk.violation(rule, tu.name, name, k, tu.file, "reversed method %r is never requested by the interpreter" % k)


def _shift_rule(chk, tu):
    rule = "C14-SHIFT"
    chk.rule(rule, "int/s64 right shift is computed on the signed value (sign-preserving), int/u64 on the unsigned value")
    for name, signed in (("cfun_it_s64_rshift", True), ("cfun_it_u64_rshift", False)):
        fn = tu.funcs.get(name)
        if fn is None:
            raise AnalysisBroken("%s not found" % name)
        shifts = [n for n in fn.nodes if n.k == "bin" and n.op == ">>"]
        if not shifts:
            raise AnalysisBroken("%s: no >> found" % name)
        for n in shifts:
            chk.instance(rule)
            lt = (n.kids[0].t or "")
            is_signed = lt in ("int64_t", "long", "long long")
            if is_signed == signed:
                chk.ok(rule, "%s: >> on %s" % (name, lt))
            else:
                chk.violation(rule, "inttypes.c", name, ">>", n.loc,
                              "%s shifts a value of type %s: %s" % (name, lt, "negative int/s64 values would be zero-filled instead of "
                                                                  "sign-extended" if signed else "unsigned values must not be sign-extended"))


def _accum_rule(chk):
    """Reading a 64-bit integer from text accumulates  acc = acc * base + digit  in uint64_t.  The result is exact
    (and out-of-range input is rejected) only if that step cannot wrap, i.e. only under acc <= (MAX - digit) / base.
    Recognised guards: `acc > (MAX - digit) / base` leaving the loop (exact); `acc > MAX / base` (not enough: for
    acc == MAX / base the added digit can still wrap).  No guard at all is a violation; a guard of another form is reported as not analysable (exit 2), not as a pass."""
    rule = "C14-ACCUM"
    chk.rule(rule, "uint64 digit accumulation acc*base+digit is dominated by the exact no-wrap guard acc <= (UINT64_MAX - digit)/base")
    prog = Program.load("default", units=["strtod.c"])
    n = 0
    for fn in prog.tus["strtod.c"].funcs.values():
        sites = []
        for x in fn.nodes:
            if x.k == "asg" and x.op == "=" and is_ref(x.kids[0]) and "uint64" in (x.kids[0].t or ""):
                r = strip_casts(x.kids[1])
                if r.k == "bin" and r.op == "+":
                    m, d = strip_casts(r.kids[0]), strip_casts(r.kids[1])
                    if m.k == "bin" and m.op == "*":
                        ops = [strip_casts(k) for k in m.kids]
                        accs = [o for o in ops if is_ref(o, x.kids[0].name)]
                        if accs:
                            base = [o for o in ops if o is not accs[0]][0]
                            sites.append((x, x.kids[0].name, base.text(), d.text()))
        if not sites:
            continue
        chk.analysed(fn)
        IN, T = flow.condition_facts(fn)
        for x, S in flow.states_at(fn, IN, T):
            for (site, acc, base, digit) in sites:
                if x is not site:
                    continue
                n += 1
                chk.instance(rule)

                def shape(ps):
                    best = "none"
                    for f in ps:
                        op, l, r, _, ln, rn = f
                        if l != acc or op not in ("<=",) or rn is None:
                            continue
                        rr = strip_casts(rn)
                        if rr.k == "bin" and rr.op == "/" and strip_casts(rr.kids[1]).text() == base:
                            num = strip_casts(rr.kids[0])
                            if num.k == "bin" and num.op == "-" and strip_casts(num.kids[0]).v == 2 ** 64 - 1 \
                                    and strip_casts(num.kids[1]).text() == digit:
                                return "exact"
                            if num.v == 2 ** 64 - 1:
                                best = "weak"
                        elif is_ref(rr):
                            # a precomputed limit that does not depend on the digit cannot be the exact bound
                            best = "weak" if best == "none" else best
                        elif best == "none":
                            best = "unknown"
                    return best
                shapes = set(shape(ps) for ps in S)
                if "unknown" in shapes:
                    raise AnalysisBroken("%s: guard on `%s` before `%s` has a form this rule does not know" % (fn.name, acc, site.text()))
                if shapes == {"exact"}:
                    chk.ok(rule, "%s: `%s` under %s <= (UINT64_MAX - %s) / %s" % (fn.name, site.text(), acc, digit, base))
                elif "exact" not in shapes or shapes - {"exact"}:
                    chk.violation(rule, "strtod.c", fn.name, "%s*%s+%s" % (acc, base, digit), site.loc,
                                  "`%s` is not dominated by `%s <= (UINT64_MAX - %s) / %s` (guard found: %s): for the largest accepted "
                                  "accumulator the added digit wraps around 2^64, so an out-of-range literal is accepted with a wrong value"
                                  % (site.text(), acc, digit, base, "/".join(sorted(shapes))))
    chk.floor(rule, 1, n)


def _fval(n):
    """numeric value of a constant bound expression (double literals, integer constants, casts, unary minus)"""
    n0 = n
    while n is not None and n.k == "cast":
        n = n.kids[0]
    if n is None:
        return None
    if n.k == "flt":
        return float(n.d.get("fv"))
    if n.v is not None:
        return float(n.v)
    if n.k == "un" and n.op == "-":
        v = _fval(n.kids[0])
        return None if v is None else -v
    if n0.v is not None:
        return float(n0.v)
    return None


def _castrange_rule(chk, tu, rule="C14-CASTRANGE", desc=None, floor=4, only=None, need_nan=False):
    """Converting a double outside the target range to a 64-bit integer is undefined in C (x86 yields INT64_MIN).
    Comparisons and conversions are exact only if every (int64_t)d / (uint64_t)d is reached with
    -2^63 <= d < 2^63 (0 <= d < 2^64).  Note (double)INT64_MAX is 2^63 itself: `d > (double)INT64_MAX` being
    false does NOT exclude d == 2^63."""
    chk.rule(rule, desc or "every double -> 64-bit integer cast is dominated by range checks that put the value strictly inside the target range")
    n = 0
    LIM = {"int64_t": (-2.0 ** 63, 2.0 ** 63), "uint64_t": (0.0, 2.0 ** 64), "long": (-2.0 ** 63, 2.0 ** 63), "unsigned long": (0.0, 2.0 ** 64)}
    for fn in tu.funcs.values():
        if only is not None and fn.name not in only:
            continue
        sites = [x for x in fn.nodes if x.k == "cast" and x.t in LIM and x.kids and (x.kids[0].t or "") in ("double", "float")]
        if not sites:
            continue
        chk.analysed(fn)
        IN, T = flow.condition_facts(fn)
        seen = set()
        for x, S in flow.states_at(fn, IN, T):
            if x not in sites or (x.ln, x.text()) in seen:
                continue
            seen.add((x.ln, x.text()))
            n += 1
            chk.instance(rule)
            lo, hi = LIM[x.t]
            var = strip_casts(x.kids[0]).text()
            problems = []
            for ps in S:
                up = low = False
                for (op, l, r, _, ln, rn) in ps:
                    if rn is None:
                        continue
                    if l == var:
                        b = _fval(rn)
                        o = op
                    elif r == var:
                        b = _fval(ln)
                        o = {"<": ">", ">": "<", "<=": ">=", ">=": "<=", "==": "==", "!=": "!="}[op]
                    else:
                        continue
                    if b is None:
                        continue
                    if (o == "<" and b <= hi) or (o == "<=" and b < hi) or (o == "==" and lo <= b < hi):
                        up = True
                    if (o == ">=" and b >= lo) or (o == ">" and b >= lo) or (o == "==" and lo <= b < hi):
                        low = True
                if need_nan and not any(ln is not None and ("isnan" in ln.macro_names() or any(c.k == "call" and (c.callee or "").lstrip("_").startswith("isnan") for c in ln.walk()))
                                        and op == "==" and (rn is None or rn.v == 0) for (op, l, r, _, ln, rn) in ps):
                    problems.append("NaN not excluded")
                if not up:
                    problems.append("no upper bound below %s" % ("2^63" if hi == 2.0 ** 63 else "2^64"))
                if not low:
                    problems.append("no lower bound at or above %s" % ("-2^63" if lo else "0"))
            if problems:
                chk.violation(rule, tu.name, fn.name, "(%s)%s" % (x.t, var), x.loc,
                              "`%s` converts a double that is not confined to the target range on every path (%s): for the boundary "
                              "value the conversion is undefined and the comparison/conversion result is wrong"
                              % (x.text(), "; ".join(sorted(set(problems)))))
            else:
                chk.ok(rule, "%s: %s only for values inside the %s range" % (fn.name, x.text(), x.t))
    chk.floor(rule, floor, n)


def _lossy_rule(chk, tu):
    """(double) of a 64-bit integer rounds once the magnitude passes 2^53.  That is exact (to-number) only if the integer
    itself is confined to +-2^53, and harmless in a comparison only if the double it is compared with is confined to
    +-2^53 (then rounding cannot carry the integer across it).  Anything wider makes distinct values compare equal."""
    rule = "C14-LOSSY"
    chk.rule(rule, "a 64-bit integer is converted to double only where it, or the double it is compared with, is confined to +-2^53")
    LIM = 2.0 ** 53
    n = 0
    for fn in tu.funcs.values():
        sites = [x for x in fn.nodes if x.k == "cast" and (x.t or "") == "double" and x.kids
                 and (x.kids[0].t or "") in ("int64_t", "uint64_t", "long", "unsigned long") and x.kids[0].v is None]
        if not sites:
            continue
        chk.analysed(fn)
        IN, T = flow.condition_facts(fn)
        seen = set()
        for x, S in flow.states_at(fn, IN, T):
            if x not in sites or x.id in seen:
                continue
            seen.add(x.id)
            n += 1
            chk.instance(rule)
            src = strip_casts(x.kids[0])
            unsigned_src = (src.t or "").startswith("u")
            bad = False
            for ps in S:
                bounds = {}
                for (op, l, r, _, ln, rn) in ps:
                    if rn is None:
                        continue
                    for var, other, o in ((l, rn, op), (r, ln, {"<": ">", ">": "<", "<=": ">=", ">=": "<=", "==": "==", "!=": "!="}[op])):
                        b = _fval(other)
                        if b is None:
                            continue
                        d = bounds.setdefault(var, [False, False])
                        if (o == "<" and b <= LIM) or (o == "<=" and b <= LIM):
                            d[0] = True
                        if (o == ">" and b >= -LIM) or (o == ">=" and b >= -LIM):
                            d[1] = True
                okay = False
                for var, (up, low) in bounds.items():
                    if var == src.text() and up and (low or unsigned_src):
                        okay = True
                    elif var != src.text() and up and low:
                        okay = True
                if not okay:
                    bad = True
            if bad:
                chk.violation(rule, tu.name, fn.name, x.text().replace(" ", ""), x.loc,
                              "`%s` is reached on a path where neither the integer nor the double it meets is confined to +-2^53: "
                              "above that the conversion rounds, so an integer and a neighbouring double compare equal (or the number "
                              "returned is not the integer's value)" % x.text())
            else:
                chk.ok(rule, "%s: %s only within the exactly representable range" % (fn.name, x.text()))
    chk.floor(rule, 3, n)


def _signedness_rule(chk, prog, tu):
    """core/s64 and core/u64 share the hooks that only move bits (hash, marshal, unmarshal), but every hook that
    INTERPRETS the 64 bits - ordering and printing - must read them with the signedness of its own type: the primitive
    comparators (<, sort, max) go through the type's compare hook, so an unsigned type wired to the signed comparator
    orders 2^63 and above before 0."""
    rule = "C14-SIGNEDNESS"
    chk.rule(rule, "the compare and tostring hooks of core/s64 / core/u64 read the payload with the signedness of their own type")
    n = 0
    for tname, want, other in (("janet_s64_type", "int64_t", "uint64_t"), ("janet_u64_type", "uint64_t", "int64_t")):
        init = tu.ginit(tname)
        if init is None:
            raise AnalysisBroken("%s not found" % tname)
        rec = prog.records.get("JanetAbstractType")
        fields = [f["n"] for f in rec["fields"]] if rec else []
        for i, k in enumerate(init.kids):
            if i >= len(fields) or fields[i] not in ("compare", "tostring"):
                continue
            k = strip_casts(k)
            if not is_ref(k) or k.name not in tu.funcs:
                continue
            fn = tu.funcs[k.name]
            n += 1
            chk.instance(rule)
            chk.analysed(fn)
            loads = set()
            for x in fn.nodes:
                if x.k == "cast" and (x.t or "").replace(" ", "") in ("int64_t*", "uint64_t*"):
                    loads.add((x.t or "").replace(" ", "").rstrip("*"))
            if other in loads or want not in loads:
                chk.violation(rule, tu.name, tname, "%s:%s" % (fields[i], k.name), fn.loc,
                              "%s.%s is %s, which reads the payload as %s: values of %s are %s as if they were %s" % (
                                  tname, fields[i], k.name, sorted(loads) or "nothing", tname.replace("janet_", "core/").replace("_type", ""),
                                  "ordered" if fields[i] == "compare" else "printed", other))
            else:
                chk.ok(rule, "%s.%s = %s reads %s" % (tname, fields[i], k.name, want))
    chk.floor(rule, 4, n)


def _modexact_rule(chk):
    """The floored modulo of two doubles has an exact answer, and libm's fmod / remainder / remquo deliver it.  The
    textbook form x - y * floor(x / y) does not: once x / y passes 2^53 the product is rounded and the difference can
    come out negative for a positive divisor, or as large as the divisor itself."""
    from jv.vm import VMHandlers
    rule = "C14-MODEXACT"
    chk.rule(rule, "the number path of the modulo instruction takes its result from an exact libm remainder, not from x - y * floor(x / y)")
    full = Program.load("default", units=["vm.c"])
    vm = VMHandlers(full)
    nodes = [x for x in vm.fn.nodes if vm.handler_of(x) == "label_JOP_MODULO"]
    if not nodes:
        raise AnalysisBroken("run_vm: handler of JOP_MODULO not found")
    chk.instance(rule)
    exact = [x for x in nodes if x.k == "call" and x.callee in ("fmod", "remainder", "remquo", "fmodl", "fmodf")]
    inexact = [x for x in nodes if x.k == "bin" and x.op == "*" and any(c.k == "call" and c.callee in ("floor", "trunc", "round") for c in x.walk())]
    if inexact:
        chk.violation(rule, "vm.c", "run_vm", "MODULO:product-of-floor", inexact[0].loc,
                      "JOP_MODULO forms `%s`: for quotients beyond 2^53 the product is rounded, so (mod 18014398509481982 3) is -2 and "
                      "(mod 3.7208134616985e16 663) is 664 - outside [0, divisor)" % inexact[0].text()[:50])
    elif not exact:
        chk.violation(rule, "vm.c", "run_vm", "MODULO:no-exact-remainder", nodes[0].loc,
                      "JOP_MODULO no longer derives the number result from fmod / remainder / remquo")
    else:
        chk.ok(rule, "JOP_MODULO: number result from `%s` with sign correction" % exact[0].text()[:30])


def _vmnarrow_rule(chk):
    """janet_wrap_integer converts its argument to int32_t before boxing it.  That is exact for a 32-bit (or narrower)
    signed operand and silently wrong for anything wider: a 64-bit intermediate such as the quotient of two 32-bit values
    (-2^31 div -1 = 2^31) loses its top bit."""
    from jv.vm import VMHandlers
    rule = "C14-VMNARROW"
    chk.rule(rule, "in the interpreter, janet_wrap_integer is applied only to operands that are at most 32 bits wide and signed (no silent truncation of a wider result)")
    full = Program.load("default", units=["vm.c"])
    vm = VMHandlers(full)
    OKT = ("int32_t", "int", "uint8_t", "int8_t", "uint16_t", "int16_t", "unsigned char", "signed char", "short", "unsigned short", "char", "_Bool")
    n = 0
    for x in vm.fn.nodes:
        if x.k == "cast" and (x.t or "") in ("int32_t", "int") and "janet_wrap_integer" in x.macro_names() and x.kids:
            # the macro's own conversion is the outermost one; a cast written inside its argument is the caller's business
            q, nested = x.parent, False
            while q is not None and q.k in ("cast", "paren", "un", "bin"):
                if q.k == "cast" and (q.t or "") in ("int32_t", "int") and "janet_wrap_integer" in q.macro_names():
                    nested = True
                q = q.parent
            if nested:
                continue
            inner = x.kids[0]
            while inner.k == "paren" and inner.kids:
                inner = inner.kids[0]
            n += 1
            chk.instance(rule)
            h = (vm.handler_of(x) or "?").replace("label_", "")
            if (inner.t or "") in OKT:
                chk.ok(rule, "%s: janet_wrap_integer(%s) on a %s" % (h, inner.text()[:24], inner.t))
            else:
                chk.violation(rule, "vm.c", "run_vm", "%s:%s" % (h, inner.text()[:20].replace(" ", "")), x.loc,
                              "%s boxes `%s` (type %s) with janet_wrap_integer, which first converts to int32_t: values outside the 32-bit "
                              "range are truncated instead of being returned as the number they are" % (h, inner.text()[:40], inner.t))
    chk.floor(rule, 5, n)


def _vmrange_rule(chk):
    """The 32-bit bitwise operators take doubles and work on their integer value.  Converting a double that is not an
    integer in range to int32_t / uint32_t is undefined behaviour in C and in practice yields some other number:
    (bnot 2147483648) answered 2147483647.  Every such conversion in the interpreter sits behind a range check of the
    same value in the same handler."""
    from jv.vm import VMHandlers
    rule = "C14-VMRANGE"
    chk.rule(rule, "in the interpreter, a double is converted to a 32-bit integer only after janet_checkintrange / janet_checkuintrange accepted that same value in the handler")
    full = Program.load("default", units=["vm.c"])
    vm = VMHandlers(full)
    CHECKS = ("janet_checkintrange", "janet_checkuintrange", "janet_checkint", "janet_checkint16", "janet_checkuint16")
    checked = {}

    def in_check(y):
        return any(m.rstrip("@") in CHECKS for m in y.macro_names())
    exact = set()       # cast nodes that are the exactness test of a range check: v == (T) v
    for c in vm.fn.nodes:
        if (c.k == "call" and c.callee in CHECKS) or (c.k == "ref" and in_check(c)):
            h = vm.handler_of(c)
            for y in c.walk():
                if y.k == "ref":
                    checked.setdefault(h, set()).add(y.name)
        if c.k == "bin" and c.op == "==" and len(c.kids) == 2:
            for a, b in ((c.kids[0], c.kids[1]), (c.kids[1], c.kids[0])):
                a0, b0 = a, b
                while b0.k == "paren" and b0.kids:
                    b0 = b0.kids[0]
                while a0.k == "paren" and a0.kids:
                    a0 = a0.kids[0]
                if is_ref(a0) and b0.k == "cast" and b0.kids and is_ref(strip_casts(b0.kids[0])) and strip_casts(b0.kids[0]).name == a0.name:
                    # the bounds must be tested in the same conjunction
                    q = c.parent
                    while q is not None and q.k in ("paren",):
                        q = q.parent
                    if q is not None and q.k == "bin" and q.op == "&&":
                        checked.setdefault(vm.handler_of(c), set()).add(a0.name)
                        exact.add(b0.id)
    n = 0
    for x in vm.fn.nodes:
        if x.k == "cast" and (x.t or "") in ("int32_t", "uint32_t", "int", "unsigned int") and x.kids and (x.kids[0].t or "") == "double":
            if in_check(x) or x.id in exact:
                continue            # the check's own exactness test `(x) == (int32_t)(x)`
            h = vm.handler_of(x)
            names = set(y.name for y in x.kids[0].walk() if y.k == "ref")
            n += 1
            chk.instance(rule)
            if names & checked.get(h, set()):
                chk.ok(rule, "%s: (%s) %s follows a range check" % ((h or "?").replace("label_", ""), x.t, x.kids[0].text()[:20]))
            else:
                chk.violation(rule, "vm.c", "run_vm", "%s:%s" % ((h or "?").replace("label_", ""), x.kids[0].text()[:20].replace(" ", "")), x.loc,
                              "%s converts the double `%s` to %s without a range check of that value in the handler: a number outside the "
                              "32-bit range, or with a fraction, is silently turned into another integer instead of being refused as its "
                              "sibling operators do" % ((h or "?").replace("label_", ""), x.kids[0].text()[:40], x.t))
    chk.floor(rule, 8, n)


def _unsignedwrap_rule(chk):
    """brushift works on uint32: its result can be any value up to 2^32 - 1 and must be boxed as that number.  Boxing
    it through a 32-bit signed conversion (janet_wrap_integer) turns results with bit 31 set into negative numbers."""
    from jv.vm import VMHandlers
    rule = "C14-UNSIGNEDWRAP"
    chk.rule(rule, "results of the unsigned 32-bit interpreter operations are boxed without a signed 32-bit conversion")
    full = Program.load("default", units=["vm.c"])
    vm = VMHandlers(full)
    n = 0
    for x in vm.fn.nodes:
        h = vm.handler_of(x)
        if not h or "UNSIGNED" not in h:
            continue
        if x.k == "asg" and x.kids[0].k == "sub" and is_ref(strip_casts(x.kids[0].kids[0]), "stack"):
            unsigned_src = any((y.t or "") in ("uint32_t", "unsigned int") for y in x.kids[1].walk())
            if not unsigned_src:
                continue
            n += 1
            chk.instance(rule)
            bad = [y for y in x.kids[1].walk() if y.k == "cast" and (y.t or "") in ("int32_t", "int") and y.kids
                   and (y.kids[0].t or "") in ("uint32_t", "unsigned int")]
            if bad:
                chk.violation(rule, "vm.c", "run_vm", "%s:int32-cast" % h[6:], x.loc,
                              "%s stores `%s`: the unsigned 32-bit result goes through a signed 32-bit conversion, so results "
                              "with bit 31 set come back negative" % (h[6:], x.kids[1].text()[:60]))
            else:
                chk.ok(rule, "%s: unsigned result boxed as a number" % h[6:])
    chk.floor(rule, 2, n)


def run(chk):
    prog = Program.load("default", units=["inttypes.c"])
    tu = prog.tus["inttypes.c"]
    _div_rule(chk, tu)
    _wrap_rule(chk, tu)
    _shift_rule(chk, tu)
    _methods_rule(chk, prog, tu)
    _accum_rule(chk)
    _castrange_rule(chk, tu)
    _lossy_rule(chk, tu)
    _signedness_rule(chk, prog, tu)
    _unsignedwrap_rule(chk)
    _modexact_rule(chk)
    _vmnarrow_rule(chk)
    _vmrange_rule(chk)
    from rules import c14_boot
    c14_boot.cmpdecline(chk)
    _signpun_rule(chk)
    _scanrange_rule(chk)
    _variadicloop_rule(chk, tu)
    _u64range_rule(chk, tu)
    chk.floor("C14-DIV", 8)
    chk.floor("C14-WRAP", 10)
    chk.floor("C14-METHODS", 40)


def _scanrange_rule(chk):
    """The text scanner behind int/s64, numeric-string operands and the :s literal reads sign and magnitude apart.  A
    negative value may have magnitude 2^63, a non-negative one only 2^63 - 1: a single limit for both signs accepts
    "9223372036854775808" and the cast turns it into INT64_MIN instead of raising."""
    rule = "C14-SCANRANGE"
    chk.rule(rule, "janet_scan_int64 stores a result only where the sign is known negative or the magnitude was compared with INT64_MAX")
    prog = Program.load("default", units=["strtod.c"])
    fn = prog.need_func("janet_scan_int64", "strtod.c")
    chk.analysed(fn)
    stores = [x for x in fn.nodes if x.k == "asg" and x.op == "=" and x.kids[0].k == "un" and x.kids[0].op == "*" and
              strip_casts(x.kids[0].kids[0]).k == "ref" and strip_casts(x.kids[0].kids[0]).name == "out"]
    if not stores:
        raise AnalysisBroken("janet_scan_int64: no store through `out`")
    # the sign flag: the int local whose address goes to the unsigned scanner
    IN, T = flow.condition_facts(fn)
    res = {}
    for x, S in flow.states_at(fn, IN, T):
        if x in stores:
            def fine(ps):
                for (op, l, r, toks, ln, rn) in ps:
                    if ln is None:
                        continue
                    a = strip_casts(ln)
                    if a.k == "ref" and a.name == "neg" and op == "!=" and (rn is None or rn.v == 0):
                        return True
                    if rn is not None and op in ("<=", "<") and a.k == "ref" and \
                            (any("INT64_MAX" in y.macro_names() for y in rn.walk()) or rn.v == 2 ** 63 - 1 or (op == "<" and rn.v == 2 ** 63)):
                        return True
                return False
            res[id(x)] = bool(S) and all(fine(ps) for ps in S)
    for x in stores:
        chk.instance(rule)
        if res.get(id(x)):
            chk.ok(rule, "janet_scan_int64: `%s` on a negative path or below INT64_MAX" % x.text()[:40])
        else:
            chk.violation(rule, "strtod.c", "janet_scan_int64", "store:" + x.kids[1].text()[:24].replace(" ", ""), x.loc,
                          "`%s` is reached for a non-negative input whose magnitude was not compared with INT64_MAX: the text "
                          "9223372036854775808 (2^63) is accepted and becomes INT64_MIN instead of an error" % x.text()[:60])
    chk.floor(rule, 1, len(stores))


def _variadicloop_rule(chk, tu):
    """The arithmetic methods of the boxed integers are variadic: (:mod x a b c) folds the operands from left to right
    like the function mod does.  `Modulo by zero yields the dividend` is a statement about one step of the fold; a
    method that returns from inside the operand loop at a zero divisor drops the remaining operands:
    (:mod (int/u64 7) 0 3) gave 7 where (mod (int/u64 7) 0 3) gives 1."""
    rule = "C14-VARIADICLOOP"
    chk.rule(rule, "a variadic integer method leaves its operand loop only by raising: no return from inside the loop over argv")
    n = 0
    for fn in tu.funcs.values():
        if not (fn.name.startswith("cfun_it_") and fn.is_cfun_sig()):
            continue
        for lp in [x for x in fn.nodes if x.k == "for"]:
            cond = lp.kids[1]
            if cond is None or not any(y.k == "ref" and y.name == "argc" for y in cond.walk()):
                continue
            n += 1
            chk.instance(rule)
            chk.analysed(fn)
            rets = [y for y in lp.kids[3].walk() if y.k == "return"]
            if not rets:
                chk.ok(rule, "%s: the operand loop runs to the end or raises" % fn.name)
            else:
                chk.violation(rule, "inttypes.c", fn.name, "return-in-loop", rets[0].loc,
                              "%s returns from inside its loop over the operands: the operands after that one are ignored, so the "
                              "method and the polymorphic function disagree for three or more operands" % fn.name)
    chk.floor(rule, 10, n)


def _u64range_rule(chk, tu):
    """A number becomes an int/u64 operand only if it is a whole value in [0, 2^64): the unsigned range test.  The
    signed test (|d| <= 2^53, whole) followed by a cast lets every negative whole number through as its two's
    complement: (int/u64 -1) is 18446744073709551615 instead of an error."""
    rule = "C14-U64RANGE"
    chk.rule(rule, "janet_unwrap_u64 turns a number into a uint64 only on a path that applied the unsigned range test")
    fn = tu.funcs.get("janet_unwrap_u64")
    if fn is None:
        raise AnalysisBroken("janet_unwrap_u64 not found")
    chk.analysed(fn)
    rets = [x for x in fn.nodes if x.k == "return" and x.kids and x.kids[0].k == "cast" and "uint64_t" in (x.kids[0].t or "") and
            not any(y.k == "un" and y.op == "*" for y in x.kids[0].walk())]
    if not rets:
        raise AnalysisBroken("janet_unwrap_u64: conversion of a number not found")
    IN, T = flow.condition_facts(fn)
    for x, S in flow.states_at(fn, IN, T):
        if x in rets:
            chk.instance(rule)
            ok = bool(S) and all(any((ln is not None and any("janet_checkuint64range" in y.macro_names() for y in ln.walk())) or
                                     (ln is not None and rn is not None and op == ">=" and rn.v == 0 and (strip_casts(ln).t or "") == "double")
                                     for (op, l, r, toks, ln, rn) in ps) for ps in S)
            if ok:
                chk.ok(rule, "janet_unwrap_u64: `%s` after the unsigned range test" % x.text()[:40])
            else:
                chk.violation(rule, "inttypes.c", "janet_unwrap_u64", "signed-range", x.loc,
                              "`%s` converts a number that was not tested against [0, 2^64): negative whole numbers become huge unsigned "
                              "values instead of raising" % x.text()[:50])
    chk.floor(rule, 1, len(rets))


def _signpun_rule(chk):
    """An int/u64 with its top bit set has no int64_t value, and a negative int/s64 no uint64_t one.  Mixed
    comparisons therefore split those cases off explicitly before they compare like with like.  Handing the address of
    one kind to a helper written for the other (a pointer conversion the C compiler only warns about) reinterprets the
    bits instead: 2^63 compares below every non-negative int/s64."""
    rule = "C14-SIGNPUN"
    chk.rule(rule, "inttypes.c never passes the address of a uint64_t where an int64_t * is expected, or the reverse")
    prog = Program.load("default", units=["inttypes.c"])
    n = _signpun_core(chk, prog.tus["inttypes.c"], rule)
    if n == 0:
        chk.note("%s: no call hands a 64-bit integer's address to a typed helper at present" % rule)
    chk.floor(rule, 0, n)
    from jv.report import must_fire
    must_fire(chk, rule, lambda probe, ex: _signpun_core(probe, list(ex.tus.values())[0], rule), "c14_signpun.c", ["bad_mixed"])


def _signpun_core(chk, tu, rule):
    n = 0

    def base(t):
        return (t or "").replace("const ", "").replace(" ", "")
    for fn in tu.funcs.values():
        for c in fn.nodes:
            if c.k != "call" or not c.callee or c.callee not in tu.funcs:
                continue
            g = tu.funcs[c.callee]
            for i, a in enumerate(c.args):
                if i >= len(g.params):
                    continue
                pt = base(g.params[i]["t"])
                if pt == "void*":
                    # what the helper takes the pointer for: its own cast of that parameter
                    views = set(base(x.t) for x in g.nodes if x.k == "cast" and x.kids and is_ref(strip_casts(x.kids[0]))
                                and strip_casts(x.kids[0]).name == g.params[i]["n"] and base(x.t) in ("int64_t*", "uint64_t*"))
                    if len(views) == 1:
                        pt = views.pop()
                if pt not in ("int64_t*", "uint64_t*"):
                    continue
                inner = strip_casts(a)
                at = base(inner.t)
                if inner.k == "un" and inner.op == "&" and inner.kids:
                    at = base(inner.kids[0].t) + "*"
                if at not in ("int64_t*", "uint64_t*"):
                    continue
                n += 1
                chk.instance(rule)
                chk.analysed(fn)
                if at == pt:
                    chk.ok(rule, "%s: %s(%s) - %s" % (fn.name, c.callee, inner.text()[:16], at))
                else:
                    chk.violation(rule, tu.name, fn.name, "%s:%s" % (c.callee, inner.text().replace(" ", "")[:16]), c.loc,
                                  "%s passes `%s` (%s) to %s, whose parameter is %s: the 64 bits are reinterpreted with the other signedness, so an "
                                  "int/u64 of 2^63 or more is taken for a negative number and orders below every non-negative int/s64" % (
                                      fn.name, inner.text()[:30], at, c.callee, pt))
    return n
