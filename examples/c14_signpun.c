/* Positive / negative example for rule C14-SIGNPUN (never compiled into anything; parsed by the extractor only). */
#include <janet.h>

static int cmp_signed(void *p1, void *p2) {
    int64_t x = *((int64_t *)p1);
    int64_t y = *((int64_t *)p2);
    return x == y ? 0 : x < y ? -1 : 1;
}

static int cmp_unsigned(void *p1, void *p2) {
    uint64_t x = *((uint64_t *)p1);
    uint64_t y = *((uint64_t *)p2);
    return x == y ? 0 : x < y ? -1 : 1;
}

int bad_mixed(uint64_t x, int64_t y) {
    if (y < 0) return 1;
    return cmp_signed(&x, &y);          /* &x is a uint64_t *: must be reported */
}

int good_signed(int64_t x, int64_t y) {
    return cmp_signed(&x, &y);          /* must not be reported */
}

int good_unsigned(uint64_t x, uint64_t y) {
    return cmp_unsigned(&x, &y);        /* must not be reported */
}
