/* Positive / negative example for rule C04-ENSURESUM (never compiled into anything; parsed by the extractor only). */
#include <janet.h>

void bad_sum(JanetBuffer *b, int32_t n) {
    janet_buffer_ensure(b, b->count + n, 2);            /* 32-bit sum, no guard: must be reported */
}

void bad_product(JanetBuffer *b) {
    janet_buffer_ensure(b, b->count + 5 * b->count + 3, 1);   /* must be reported */
}

void good_guarded(JanetBuffer *b, int32_t n) {
    if (n > INT32_MAX - b->count) janet_panic("buffer overflow");
    janet_buffer_ensure(b, b->count + n, 2);            /* guarded: must not be reported */
}

void good_constant(JanetBuffer *b) {
    janet_buffer_ensure(b, 64, 2);                      /* no arithmetic: not an instance */
}
