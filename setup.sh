#!/bin/sh
# Build the fact extractor (libTooling, clang 14). Offline; needs only what is installed.
set -e
cd "$(dirname "$0")"
mkdir -p build
if [ ! -x build/jfacts ] || [ tools/jfacts.cc -nt build/jfacts ]; then
  clang++ $(llvm-config-14 --cxxflags) -fno-rtti -O1 tools/jfacts.cc -o build/jfacts \
    /usr/lib/llvm-14/lib/libclang-cpp.so.14 /usr/lib/llvm-14/lib/libLLVM-14.so
fi
echo "jfacts built"
